#!/bin/bash
# Evaluate one seeded change: tools/mutant_eval.sh <dir with patch.diff [+ demo_test.go + meta.json]> <property ids to run...>
# 1. scratch worktree of /repo HEAD outside /repo and /verif, patch applied
# 2. the demonstration fails with the change and passes without it; the unedited suite passes with the change
# 3. the listed checks are run against the scratch tree (VERIF_REPO) in the quick tier
# The scratch worktree and its build output are removed at the end.
set -u
D=$(realpath "$1"); shift
NAME=$(basename "$D")
W=/tmp/eval/$NAME
export GOPROXY=off GOSUMDB=off GOTOOLCHAIN=local
rm -rf "$W"; git -C /repo worktree prune
git -C /repo worktree add -q --detach "$W" HEAD || exit 2
TAG=$(echo -n "$W" | sha256sum | cut -c1-10)
cleanup() { git -C /repo worktree remove --force "$W" 2>/dev/null; rm -rf "$W" /verif/build/harness-props-$TAG /verif/build/props-$TAG.test /verif/build/props-$TAG.test.stamp /verif/build/run-$TAG; }
trap cleanup EXIT
echo "== $NAME"
if [ -f "$D/demo_test.go" ]; then
  DIR=$(head -1 "$D/demo_test.go" | sed -n 's#^// *dir: *##p' | tr -d ' \r')
  [ -z "$DIR" ] && DIR=$(jq -r '.demo_dir // empty' "$D/meta.json" 2>/dev/null)
  cp "$D/demo_test.go" "$W/$DIR/zz_seeded_demo_test.go"
  (cd "$W" && GOFLAGS= go test -vet=off -count=1 "./$DIR" >/tmp/eval/$NAME.clean.log 2>&1) && echo "demo on clean tree: PASS" || { echo "demo on clean tree: FAIL (unusable)"; tail -5 /tmp/eval/$NAME.clean.log; }
fi
git -C "$W" apply "$D/patch.diff" || { echo "patch does not apply"; exit 2; }
if [ -f "$D/demo_test.go" ]; then
  (cd "$W" && GOFLAGS= go test -vet=off -count=1 "./$DIR" >/tmp/eval/$NAME.mut.log 2>&1) && echo "demo with change: PASS (change not demonstrated)" || echo "demo with change: FAIL (as intended)"
  rm -f "$W/$DIR/zz_seeded_demo_test.go"
fi
(cd "$W" && GOFLAGS= go build ./... >/tmp/eval/$NAME.build.log 2>&1) && echo "build: ok" || { echo "build: FAILED"; tail -5 /tmp/eval/$NAME.build.log; }
(cd "$W" && GOFLAGS= go test -vet=off -count=1 ./... >/tmp/eval/$NAME.suite.log 2>&1) && echo "existing suite with change: PASS" || { echo "existing suite with change: FAIL"; grep -E "^(FAIL|---)" /tmp/eval/$NAME.suite.log | head; }
for P in "$@"; do
  OUT=$(cd /verif && VERIF_REPO="$W" VERIF_EVID_KEEP=1 ./check "$P" quick 2>&1)
  RC=$?
  echo "check $P quick -> exit $RC"
  echo "$OUT" | grep -E "VIOLATION|failed after|violated|inconclusive|health" | cut -c1-400 | head -4
done
