#!/usr/bin/env python3
"""Rewrites section 11 of DESIGN.md from seeded/*/meta.json plus the hand-written strengthening tables below."""
import json, os, re
ROOT = os.path.dirname(os.path.dirname(os.path.abspath(__file__)))
rows = {r: [] for r in range(1, 12)}
stats = {r: [0, 0] for r in range(1, 12)}
for d in sorted(os.listdir(os.path.join(ROOT, 'seeded'))):
    m = json.load(open(os.path.join(ROOT, 'seeded', d, 'meta.json')))
    summ = re.sub(r'\s+', ' ', (m.get('summary') or '').replace('|', '/'))
    if len(summ) > 230: summ = summ[:227] + '...'
    r = m.get('round', 1)
    stats[r][1] += 1
    if not m.get('missed_at_first'): stats[r][0] += 1
    rows[r].append('| %s | %s | %s | %s |' % (d, summ, ('not reported (see below)' if not m.get('caught_by') else 'missed, then caught' if m.get('missed_at_first') else 'caught'), ', '.join(m.get('caught_by') or ['-'])))
STRENGTH1 = open(os.path.join(ROOT, 'tools', 'design11_round1.md')).read()
STRENGTH2 = open(os.path.join(ROOT, 'tools', 'design11_round2.md')).read()
STRENGTH3 = open(os.path.join(ROOT, 'tools', 'design11_round3.md')).read()
STRENGTH4 = open(os.path.join(ROOT, 'tools', 'design11_round4.md')).read()
STRENGTH5 = open(os.path.join(ROOT, 'tools', 'design11_round5.md')).read()
STRENGTH6 = open(os.path.join(ROOT, 'tools', 'design11_round6.md')).read()
STRENGTH7 = open(os.path.join(ROOT, 'tools', 'design11_round7.md')).read()
STRENGTH8 = open(os.path.join(ROOT, 'tools', 'design11_round8.md')).read()
STRENGTH9 = open(os.path.join(ROOT, 'tools', 'design11_round9.md')).read()
STRENGTH10 = open(os.path.join(ROOT, 'tools', 'design11_round10.md')).read()
STRENGTH11 = open(os.path.join(ROOT, 'tools', 'design11_round11.md')).read()
txt = '''
---------------------------------------------------------------------------------------

## 11. Seeded changes: which checks catch which

Four hundred and thirty-four changes to initia-labs/OPinit were written by **independent sub-agents**
in eleven rounds (two per property and round, six agents delivered a single change; each agent saw only the text of its property and its
own scratch worktree, nothing from /verif; in rounds 2 to 11 the property text was followed by
one-line summaries of the earlier ideas for that property, with the request to find something
different and subtler). Each was asked for a change that breaks the property, still compiles, passes the 157
existing tests, and needs something specific to manifest; each came with a demonstration test.
Every one was confirmed here with `tools/mutant_eval.sh` in a fresh scratch worktree of /repo
HEAD (demo passes on the clean tree, fails with the change; build ok; unedited suite passes with
the change) before it was kept under `seeded/<id>/` (`patch.diff`, `demo_test.go.txt`,
`meta.json`). None of them was ever applied to /repo. The checks were run against the scratch
worktree through `VERIF_REPO` (evidence and replays of such runs go to `build/alt/`, not into
the tracked files), quick tier, `VERIF_SEED=1`.

| round | caught by the property's own quick check at first | after strengthening |
|---|---|---|
| 1 (A, B) | %d of %d | %d of %d |
| 2 (C, D) | %d of %d | %d of %d |
| 3 (E, F) | %d of %d | %d of %d |
| 4 (G, H) | %d of %d | %d of %d |
| 5 (I, J) | %d of %d | %d of %d |
| 6 (K, L) | %d of %d | %d of %d |
| 7 (M, N) | %d of %d | 36 of 39 (3 are not violations of the statements as written, see below) |
| 8 (O, P) | %d of %d | 37 of 38 (1 cannot touch a recorded withdrawal, see below) |
| 9 (Q, R) | %d of %d | 39 of 40 (1 needs a chain without bonded validators, see below) |
| 10 (S, T) | %d of %d | 38 of 38 |
| 11 (U, V) | %d of %d | 40 of 40 (1 by another property's check) |

"caught by" lists every check that was run against the change and exited 1 (round 1: the
property's own check plus a related set of 4-10 checks; rounds 2 to 11: the own check; C13-H, C13-I, C13-L also against C14, C06-L against C07, C20-L against C07 and C09); every other
check of the set stayed silent (exit 0) - no unrelated check raised an alarm on any change -
except C16 on C18-A/B and C02 on C01-A, which were inconclusive (exit 2: a nondeterministic
validator-update order makes rapid report "flaky"; one run was disturbed by a concurrent clean-up).

### Round 1

| id | change | own check | caught by |
|---|---|---|---|
''' % (stats[1][0], stats[1][1], stats[1][1], stats[1][1], stats[2][0], stats[2][1], stats[2][1], stats[2][1], stats[3][0], stats[3][1], stats[3][1], stats[3][1], stats[4][0], stats[4][1], stats[4][1], stats[4][1], stats[5][0], stats[5][1], stats[5][1], stats[5][1], stats[6][0], stats[6][1], stats[6][1], stats[6][1], stats[7][0], stats[7][1], stats[8][0], stats[8][1], stats[9][0], stats[9][1], stats[10][0], stats[10][1], stats[11][0], stats[11][1]) + '\n'.join(rows[1]) + '\n' + STRENGTH1 + '''
### Round 2

| id | change | own check | caught by |
|---|---|---|---|
''' + '\n'.join(rows[2]) + '\n' + STRENGTH2 + '''
### Round 3

| id | change | own check | caught by |
|---|---|---|---|
''' + '\n'.join(rows[3]) + '\n' + STRENGTH3 + '''
### Round 4

| id | change | own check | caught by |
|---|---|---|---|
''' + '\n'.join(rows[4]) + '\n' + STRENGTH4 + '''
### Round 5

| id | change | own check | caught by |
|---|---|---|---|
''' + '\n'.join(rows[5]) + '\n' + STRENGTH5 + '''
### Round 6

| id | change | own check | caught by |
|---|---|---|---|
''' + '\n'.join(rows[6]) + '\n' + STRENGTH6 + '''
### Round 7

| id | change | own check | caught by |
|---|---|---|---|
''' + '\n'.join(rows[7]) + '\n' + STRENGTH7 + '''
### Round 8

| id | change | own check | caught by |
|---|---|---|---|
''' + '\n'.join(rows[8]) + '\n' + STRENGTH8 + '''
### Round 9

| id | change | own check | caught by |
|---|---|---|---|
''' + '\n'.join(rows[9]) + '\n' + STRENGTH9 + '''
### Round 10

| id | change | own check | caught by |
|---|---|---|---|
''' + '\n'.join(rows[10]) + '\n' + STRENGTH10 + '''
### Round 11

| id | change | own check | caught by |
|---|---|---|---|
''' + '\n'.join(rows[11]) + '\n' + STRENGTH11 + '''
What this does **not** show: the changes were written against the properties, not against the
checks, but they are about twenty-two per property and of the kind an LLM finds plausible; the second round,
asked for subtlety, got past the first version of 25 of 40 checks, the third past 24, the
fourth past 15, the fifth past 18, the sixth past 24 of 39, the seventh past 23 of 39, the eighth past 20 of 38, the ninth past 24 of 40, the tenth past 17 of 38 and the eleventh past 21 of 40, so a
twelfth round would still find gaps - the agents see every earlier idea and are asked for something else each time, while
the generators only know what they were given. Their kinds shifted, though: round 2 mostly found inputs at a
scale, at a boundary or in a spelling the generators did not produce; round 3 mostly found
*environment* assumptions of the harness - one goroutine, one committed context, a store that was
never exported and re-imported, a chain that did not start from genesis, callers that only read
what they are given, nothing running during a bank transfer. Those are now generated dimensions
(concurrency, discarded branches, restarts, genesis start, aliasing, re-entrancy). Round 4 found
mostly missing *combinations* (zero amount with a failing hook, a plan at capacity, a replacement
at capacity before a mid-block export, more than a page of anything) and two things the traces
did not contain (gas; complete paginated reads). One environment assumption fell with it: messages
now reach the handlers as wire copies, as they do from a transaction. Round 5 (asked for
parameter changes, neighbours, arithmetic, iteration bounds, indexes out of step) found the L1 of
the two-chain machines too lonely (no neighbouring bridge that could be disturbed or disturb),
outputs too few and too synchronous (one output per history, claimed while it is the newest),
and two wall-clock / map-order dependencies that a repeat-and-compare relation cannot see unless the
trace contains the right thing (the order of a stored list) or an outcome is known from the script
alone (an update dated 2100 must be accepted whatever the machine's clock says). Rounds 6 and 7 found
scales and boundaries again (hundreds of pending outputs, periods near 2^63, counters near 2^64, hostile genesis
files) and validation asymmetries between the two chains. Rounds 8 to 11 moved to *where else a request can come
from and what else a process remembers*: restarts of either chain in the middle of a history (with block heights
renumbered, with the genesis applied at height 0, with empty neighbouring modules), plans registered again after a
restart, messages checked on a discarded branch before they are committed (that dimension found D12, a genuine
defect, on the unchanged tree), end-of-block logic run twice, light-client data whose unauthenticated fields lie,
key types, address lengths and spellings that the first generators never produced, and sweeps over a numeric
parameter (the hook gas allowance) fine enough to hit windows a few hundred gas wide. The class histograms in each evidence file are the guard against
silently losing such a class again (a generator health check fails the run when a named class
is nearly empty), and every class added for a seeded change is named there.
'''
p = os.path.join(ROOT, 'DESIGN.md')
s = open(p).read()
if '## 11. Seeded changes' in s:
    s = s[:s.index('\n---------------------------------------------------------------------------------------\n\n## 11. Seeded changes')]
open(p, 'w').write(s + txt)
print(stats)
