#!/usr/bin/env python3
"""Pinned vectors for C17, produced with python's hashlib (a code base unrelated to both Go
implementations). Re-running this script reproduces testdata/c17_vectors.json byte for byte."""
import hashlib, json, random, struct, sys

def sha3(b): return hashlib.sha3_256(b).digest()
def be64(v): return struct.pack(">Q", v)

def leaf(bid, seq, s, r, d, amt):
    inner = be64(bid) + be64(seq) + sha3(s.encode()) + sha3(r.encode()) + sha3(d.encode()) + be64(amt)
    return sha3(sha3(inner))
def node(a, b): return sha3(a + b) if a <= b else sha3(b + a)
def root(l, proof):
    cur = l
    for p in proof: cur = node(cur, p)
    return cur
def output_root(v, sr, bh): return sha3(bytes([v]) + sr[:32] + bh[:32])
def l2denom(bid, d): return "l2/" + sha3(be64(bid) + d.encode()).hex()
def bridge_addr(bid):
    return hashlib.sha256(hashlib.sha256(b"module").digest() + b"ophost" + b"\x00" + be64(bid)).digest()

rnd = random.Random(20260101)
U64 = [0, 1, 2, 255, 256, 2**32 - 1, 2**32, 2**63 - 1, 2**63, 2**64 - 2, 2**64 - 1]
STR = ["", "a", "init1qqqq", "cosmos174knscjg688ddtxj8smyjz073r3w5mms08musg", "uinit", "ibc/27394FB092D2ECCD56123C74F36E4C1F926001CEADA9CA97EA622B25F41E5EB2",
       "l2/" + "ab" * 32, "x" * 300, "é日本語", "a\x00b", " lead", "trail ", "UPPER", "upper"]
def r32(): return bytes(rnd.getrandbits(8) for _ in range(32))
NODES = [b"\x00" * 32, b"\xff" * 32, b"\x00" * 31 + b"\x01", b"\x7f" + b"\xff" * 31, b"\x80" + b"\x00" * 31]

vec = {"leaf": [], "node": [], "root": [], "output_root": [], "l2denom": [], "bridge_addr": []}
for i in range(120):
    bid = rnd.choice(U64) if i % 2 else rnd.getrandbits(64)
    seq = rnd.choice(U64) if i % 3 else rnd.getrandbits(64)
    amt = rnd.choice(U64) if i % 5 else rnd.getrandbits(64)
    s, r, d = rnd.choice(STR), rnd.choice(STR), rnd.choice(STR)
    vec["leaf"].append({"bridge_id": str(bid), "seq": str(seq), "sender": s, "receiver": r, "denom": d, "amount": str(amt), "hash": leaf(bid, seq, s, r, d, amt).hex()})
for i in range(80):
    a = rnd.choice(NODES) if i % 3 == 0 else r32()
    b = rnd.choice(NODES) if i % 4 == 0 else (a if i % 7 == 0 else r32())
    if i % 11 == 0:  # adjacent pair
        b = a[:31] + bytes([(a[31] + 1) % 256])
    vec["node"].append({"a": a.hex(), "b": b.hex(), "hash": node(a, b).hex()})
for i in range(60):
    l = r32(); n = i % 13
    proof = [rnd.choice(NODES) if rnd.random() < 0.2 else r32() for _ in range(n)]
    vec["root"].append({"leaf": l.hex(), "proof": [p.hex() for p in proof], "root": root(l, proof).hex()})
for i in range(40):
    v = rnd.choice([0, 1, 2, 127, 128, 255]); sr = r32(); bh = r32()
    vec["output_root"].append({"version": v, "storage_root": sr.hex(), "block_hash": bh.hex(), "root": output_root(v, sr, bh).hex()})
for i in range(60):
    bid = rnd.choice(U64) if i % 2 else rnd.getrandbits(64); d = rnd.choice(STR)
    vec["l2denom"].append({"bridge_id": str(bid), "l1_denom": d, "l2_denom": l2denom(bid, d)})
for i in range(40):
    bid = rnd.choice(U64) if i % 2 else rnd.getrandbits(64)
    vec["bridge_addr"].append({"bridge_id": str(bid), "addr": bridge_addr(bid).hex()})
json.dump(vec, open(sys.argv[1], "w"), indent=0, sort_keys=True, ensure_ascii=True)
