#!/bin/bash
# tools/collect_mutant.sh <srcroot> C10 A [name-suffix] -> stages <srcroot>/C10/_out/A.* as /tmp/seeded_in/C10-<suffix|A>/{patch.diff,demo_test.go,meta.json}
ROOT=$1; ID=$2; X=$3; N=${4:-$X}; SRC=$ROOT/$ID/_out; DST=/tmp/seeded_in/$ID-$N
[ -f $SRC/$X.patch ] || { echo "missing $SRC/$X.patch"; exit 1; }
mkdir -p $DST && cp $SRC/$X.patch $DST/patch.diff && cp $SRC/${X}_demo_test.go $DST/demo_test.go
jq --arg x $X --arg n $N --arg id $ID '{property: $id, variant: $n} + (.[$x] // {})' $SRC/meta.json > $DST/meta.json 2>/dev/null || echo "{\"property\":\"$ID\",\"variant\":\"$N\"}" > $DST/meta.json
echo staged $DST
