#!/bin/bash
# tools/collect_mutant.sh C10 A  -> stages /tmp/mut/C10/_out/A.* as /tmp/seeded_in/C10-A/{patch.diff,demo_test.go,meta.json}
ID=$1; X=$2; SRC=/tmp/mut/$ID/_out; DST=/tmp/seeded_in/$ID-$X
mkdir -p $DST && cp $SRC/$X.patch $DST/patch.diff && cp $SRC/${X}_demo_test.go $DST/demo_test.go
jq --arg x $X --arg id $ID '{property: $id, variant: $x} + (.[$x] // {})' $SRC/meta.json > $DST/meta.json 2>/dev/null || echo "{\"property\":\"$ID\",\"variant\":\"$X\"}" > $DST/meta.json
echo staged $DST
