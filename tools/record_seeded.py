#!/usr/bin/env python3
"""Collects the evaluation logs of tools/mutant_eval.sh runs (/tmp/eval/*.log, in chronological order given on the
command line) and writes /verif/seeded/<id>/{patch.diff,demo_test.go.txt,meta.json} for every staged change."""
import json, os, re, shutil, sys, glob
order = sys.argv[1:]
runs = {}  # mutant -> list of (logname, lines)
for f in order:
    cur = None
    for line in open(f, errors='replace'):
        m = re.match(r'== (\S+)', line)
        if m:
            cur = m.group(1); runs.setdefault(cur, []).append((os.path.basename(f), [])); continue
        if cur: runs[cur][-1][1].append(line.rstrip())
for d in sorted(os.listdir('/tmp/seeded_in')):
    src = '/tmp/seeded_in/' + d; dst = '/verif/seeded/' + d
    os.makedirs(dst, exist_ok=True)
    shutil.copy(src + '/patch.diff', dst + '/patch.diff')
    shutil.copy(src + '/demo_test.go', dst + '/demo_test.go.txt')
    meta = json.load(open(src + '/meta.json'))
    rs = runs.get(d, [])
    own = meta.get('property')
    def has(lines, s): return any(s in l for l in lines)
    first = rs[0][1] if rs else []
    res = {}
    first_own = None
    for name, lines in rs:
        for l in lines:
            m = re.match(r'check (C\d+) quick -> exit (\d+)', l)
            if m:
                res[m.group(1)] = int(m.group(2))
                if m.group(1) == own and first_own is None: first_own = int(m.group(2))
    reason = ''
    for name, lines in reversed(rs):
        rr = [l for l in lines if 'failed after' in l or 'violated' in l or 'case ' in l]
        if rr: reason = rr[0][:400]; break
    out = dict(
        property=own, variant=meta.get('variant'), round={'C': 2, 'D': 2, 'E': 3, 'F': 3, 'G': 4, 'H': 4, 'I': 5, 'J': 5, 'K': 6, 'L': 6, 'M': 7, 'N': 7, 'O': 8, 'P': 8, 'Q': 9, 'R': 9, 'S': 10, 'T': 10, 'U': 11, 'V': 11}.get(meta.get('variant'), 1),
        summary=meta.get('summary'), needs_to_manifest=meta.get('needs'), demo_dir=meta.get('demo_dir'),
        author="independent sub-agent given only the property text (rounds 2 to 11: plus one-line summaries of the earlier ideas for that property, to be avoided) and a scratch worktree",
        confirmed=dict(how="tools/mutant_eval.sh in a scratch worktree of /repo HEAD (removed afterwards)",
                       demo_passes_on_clean_tree=has(first, 'demo on clean tree: PASS'), demo_fails_with_change=has(first, 'demo with change: FAIL'),
                       builds=has(first, 'build: ok'), existing_suite_passes_with_change=has(first, 'existing suite with change: PASS')),
        own_check_first_run_exit=first_own, missed_at_first=(first_own == 0),
        caught_by=sorted(p for p, e in res.items() if e == 1),
        checks_run_and_silent=sorted(p for p, e in res.items() if e == 0),
        checks_inconclusive=sorted(p for p, e in res.items() if e == 2),
        caught_reason=reason)
    json.dump(out, open(dst + '/meta.json', 'w'), indent=1)
    c = out['confirmed']
    print(d, 'ok' if all(c[k] for k in ('demo_passes_on_clean_tree', 'demo_fails_with_change', 'builds', 'existing_suite_passes_with_change')) else c,
          'missed-first' if out['missed_at_first'] else '', 'caught by ' + ','.join(out['caught_by']) if out['caught_by'] else 'MISSED')
