#!/usr/bin/env python3
"""Regenerates MANIFEST.json from props.json (single source of truth for the checks)."""
import json, os
ROOT = os.path.dirname(os.path.dirname(os.path.abspath(__file__)))
props = json.load(open(os.path.join(ROOT, "props.json")))
ids = [json.loads(l)["id"] for l in open(os.path.join(ROOT, "properties.jsonl")) if l.strip()]
checks, na = [], []
for pid in ids:
    sp = props.get(pid)
    if not sp or not sp.get("claimed", True):
        na.append(dict(property_id=pid, reason=(sp or {}).get("not_applicable_reason", "check not implemented yet (work in progress); the technique applies, see DESIGN.md section 5")))
        continue
    checks.append(dict(
        property_id=pid,
        quick_cmd="./check %s quick" % pid,
        thorough_cmd="./check %s thorough" % pid,
        evidence_file="evidence/%s.json" % pid,
        replay_cmd_template="./check %s --replay {path}" % pid,
        engine="rapid-harness",
        level_claimed=dict(category="exploration", text=sp["level_text"], design_ref="DESIGN.md section 5, " + pid),
        level_note=sp["level_note"],
        technique=sp["technique"],
    ))
m = dict(
    version=1,
    setup_cmd="./check --setup",
    hooks=dict(
        guard="verif",
        enable="checks compile /repo's working tree through a Go module replace with `-tags verif`; no source hook exists, so the tag is a no-op today",
        baseline_off_cmd="cd /repo && GOFLAGS= GOPROXY=off GOTOOLCHAIN=local go test -vet=off -count=1 -timeout 25m ./... && cd /repo/api && GOFLAGS= GOPROXY=off GOTOOLCHAIN=local go test -vet=off -count=1 -timeout 25m ./...",
        source_commits=[],
        add_only=True,
    ),
    engines=[dict(name="rapid-harness", path="harness/", serves_properties=[c["property_id"] for c in checks],
                  kind_free_text="Go module (pgregory.net/rapid v1.3.0 + bounded exhaustive enumerators + pinned regression cases) that drives the real ophost/opchild keepers in memory; driver ./check shards it over up to 16 processes and merges evidence")],
    checks=checks,
    notes="Property-based testing / fuzzing only. Genuine defects found are listed in KNOWN_FINDINGS.txt (fixed: entries name the fix: commit in /repo). See DESIGN.md.",
    not_applicable=na,
)
json.dump(m, open(os.path.join(ROOT, "MANIFEST.json"), "w"), indent=1)
print("checks:", len(checks), "not_applicable:", len(na))
