module verifharness

go 1.23

toolchain go1.23.5

require (
	cosmossdk.io/log v1.4.1
	cosmossdk.io/math v1.4.0
	cosmossdk.io/store v1.1.1
	cosmossdk.io/x/tx v0.13.4
	github.com/cometbft/cometbft v0.38.12
	github.com/cosmos/cosmos-db v1.0.2
	github.com/cosmos/cosmos-sdk v0.50.9
	github.com/cosmos/gogoproto v1.7.0
	github.com/initia-labs/OPinit v0.0.0
	github.com/skip-mev/connect/v2 v2.0.1
	golang.org/x/crypto v0.27.0
	google.golang.org/protobuf v1.34.2
	pgregory.net/rapid v1.3.0
)

require (
	cosmossdk.io/api v0.7.5 // indirect
	cosmossdk.io/collections v0.4.0 // indirect
	cosmossdk.io/core v0.11.1 // indirect
	cosmossdk.io/depinject v1.0.0 // indirect
	cosmossdk.io/errors v1.0.1 // indirect
	cosmossdk.io/x/upgrade v0.1.4 // indirect
	filippo.io/edwards25519 v1.1.0 // indirect
	github.com/99designs/keyring v1.2.2 // indirect
	github.com/DataDog/datadog-go v3.2.0+incompatible // indirect
	github.com/beorn7/perks v1.0.1 // indirect
	github.com/bgentry/speakeasy v0.1.1-0.20220910012023-760eaf8b6816 // indirect
	github.com/btcsuite/btcd/btcec/v2 v2.3.4 // indirect
	github.com/cenkalti/backoff/v4 v4.2.1 // indirect
	github.com/cespare/xxhash/v2 v2.3.0 // indirect
	github.com/cockroachdb/errors v1.11.3 // indirect
	github.com/cockroachdb/logtags v0.0.0-20230118201751-21c54148d20b // indirect
	github.com/cockroachdb/redact v1.1.5 // indirect
	github.com/cometbft/cometbft-db v0.12.0 // indirect
	github.com/cosmos/btcutil v1.0.5 // indirect
	github.com/cosmos/cosmos-proto v1.0.0-beta.5 // indirect
	github.com/cosmos/go-bip39 v1.0.0 // indirect
	github.com/cosmos/gogogateway v1.2.0 // indirect
	github.com/cosmos/iavl v1.2.0 // indirect
	github.com/cosmos/ibc-go/modules/capability v1.0.1 // indirect
	github.com/cosmos/ibc-go/v8 v8.5.0 // indirect
	github.com/cosmos/ics23/go v0.11.0 // indirect
	github.com/cosmos/interchain-security/v6 v6.0.0 // indirect
	github.com/davecgh/go-spew v1.1.2-0.20180830191138-d8f796af33cc // indirect
	github.com/decred/dcrd/dcrec/secp256k1/v4 v4.2.0 // indirect
	github.com/desertbit/timer v0.0.0-20180107155436-c41aec40b27f // indirect
	github.com/dvsekhvalnov/jose2go v1.6.0 // indirect
	github.com/emicklei/dot v1.6.1 // indirect
	github.com/fatih/color v1.17.0 // indirect
	github.com/felixge/httpsnoop v1.0.4 // indirect
	github.com/fsnotify/fsnotify v1.7.0 // indirect
	github.com/getsentry/sentry-go v0.27.0 // indirect
	github.com/go-kit/kit v0.13.0 // indirect
	github.com/go-kit/log v0.2.1 // indirect
	github.com/go-logfmt/logfmt v0.6.0 // indirect
	github.com/godbus/dbus v0.0.0-20190726142602-4481cbc300e2 // indirect
	github.com/gogo/googleapis v1.4.1 // indirect
	github.com/gogo/protobuf v1.3.2 // indirect
	github.com/golang/mock v1.6.0 // indirect
	github.com/golang/protobuf v1.5.4 // indirect
	github.com/golang/snappy v0.0.5-0.20220116011046-fa5810519dcb // indirect
	github.com/google/btree v1.1.2 // indirect
	github.com/google/go-cmp v0.6.0 // indirect
	github.com/google/orderedcode v0.0.1 // indirect
	github.com/gorilla/handlers v1.5.2 // indirect
	github.com/gorilla/mux v1.8.1 // indirect
	github.com/gorilla/websocket v1.5.3 // indirect
	github.com/grpc-ecosystem/go-grpc-middleware v1.4.0 // indirect
	github.com/grpc-ecosystem/grpc-gateway v1.16.0 // indirect
	github.com/gsterjov/go-libsecret v0.0.0-20161001094733-a6f4afe4910c // indirect
	github.com/hashicorp/go-hclog v1.5.0 // indirect
	github.com/hashicorp/go-immutable-radix v1.3.1 // indirect
	github.com/hashicorp/go-metrics v0.5.3 // indirect
	github.com/hashicorp/go-plugin v1.5.2 // indirect
	github.com/hashicorp/golang-lru v1.0.2 // indirect
	github.com/hashicorp/golang-lru/v2 v2.0.7 // indirect
	github.com/hashicorp/hcl v1.0.0 // indirect
	github.com/hashicorp/yamux v0.1.1 // indirect
	github.com/hdevalence/ed25519consensus v0.1.0 // indirect
	github.com/huandu/skiplist v1.2.0 // indirect
	github.com/iancoleman/strcase v0.3.0 // indirect
	github.com/improbable-eng/grpc-web v0.15.0 // indirect
	github.com/initia-labs/OPinit/api v0.6.0 // indirect
	github.com/klauspost/compress v1.17.9 // indirect
	github.com/kr/pretty v0.3.1 // indirect
	github.com/kr/text v0.2.0 // indirect
	github.com/lib/pq v1.10.9 // indirect
	github.com/magiconair/properties v1.8.7 // indirect
	github.com/mattn/go-colorable v0.1.13 // indirect
	github.com/mattn/go-isatty v0.0.20 // indirect
	github.com/minio/highwayhash v1.0.2 // indirect
	github.com/mitchellh/go-testing-interface v1.14.1 // indirect
	github.com/mitchellh/mapstructure v1.5.0 // indirect
	github.com/mtibben/percent v0.2.1 // indirect
	github.com/munnerz/goautoneg v0.0.0-20191010083416-a7dc8b61c822 // indirect
	github.com/oasisprotocol/curve25519-voi v0.0.0-20230904125328-1f23a7beb09a // indirect
	github.com/oklog/run v1.1.0 // indirect
	github.com/pelletier/go-toml/v2 v2.2.3 // indirect
	github.com/pkg/errors v0.9.1 // indirect
	github.com/pmezard/go-difflib v1.0.1-0.20181226105442-5d4384ee4fb2 // indirect
	github.com/prometheus/client_golang v1.20.4 // indirect
	github.com/prometheus/client_model v0.6.1 // indirect
	github.com/prometheus/common v0.55.0 // indirect
	github.com/prometheus/procfs v0.15.1 // indirect
	github.com/rcrowley/go-metrics v0.0.0-20201227073835-cf1acfcdf475 // indirect
	github.com/rogpeppe/go-internal v1.12.0 // indirect
	github.com/rs/cors v1.11.1 // indirect
	github.com/rs/zerolog v1.33.0 // indirect
	github.com/sagikazarmark/slog-shim v0.1.0 // indirect
	github.com/skip-mev/block-sdk/v2 v2.1.1 // indirect
	github.com/spf13/afero v1.11.0 // indirect
	github.com/spf13/cast v1.7.0 // indirect
	github.com/spf13/cobra v1.8.1 // indirect
	github.com/spf13/pflag v1.0.5 // indirect
	github.com/spf13/viper v1.19.0 // indirect
	github.com/stretchr/testify v1.9.0 // indirect
	github.com/subosito/gotenv v1.6.0 // indirect
	github.com/syndtr/goleveldb v1.0.1-0.20220721030215-126854af5e6d // indirect
	github.com/tendermint/go-amino v0.16.0 // indirect
	github.com/tidwall/btree v1.7.0 // indirect
	golang.org/x/exp v0.0.0-20240909161429-701f63a606c0 // indirect
	golang.org/x/net v0.29.0 // indirect
	golang.org/x/sync v0.8.0 // indirect
	golang.org/x/sys v0.25.0 // indirect
	golang.org/x/term v0.24.0 // indirect
	golang.org/x/text v0.18.0 // indirect
	google.golang.org/genproto v0.0.0-20240722135656-d784300faade // indirect
	google.golang.org/genproto/googleapis/api v0.0.0-20240903143218-8af14fe29dc1 // indirect
	google.golang.org/genproto/googleapis/rpc v0.0.0-20240903143218-8af14fe29dc1 // indirect
	google.golang.org/grpc v1.66.2 // indirect
	gopkg.in/ini.v1 v1.67.0 // indirect
	gopkg.in/yaml.v3 v3.0.1 // indirect
	gotest.tools/v3 v3.5.1 // indirect
	nhooyr.io/websocket v1.8.6 // indirect
	sigs.k8s.io/yaml v1.4.0 // indirect
)

replace github.com/initia-labs/OPinit => /repo

replace github.com/initia-labs/OPinit/api => /repo/api

replace (
	github.com/99designs/keyring => github.com/cosmos/keyring v1.2.0
	github.com/dgrijalva/jwt-go => github.com/golang-jwt/jwt/v4 v4.4.2
	github.com/gin-gonic/gin => github.com/gin-gonic/gin v1.8.1
	github.com/strangelove-ventures/cometbft-client => github.com/initia-labs/cometbft-client v0.0.0-20240924071428-ef115cefa07e
	github.com/syndtr/goleveldb => github.com/syndtr/goleveldb v1.0.1-0.20210819022825-2ae1ddf74ef7
)
