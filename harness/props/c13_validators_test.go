package props

import (
	"fmt"
	"testing"
	"time"

	"pgregory.net/rapid"

	"verifharness/evid"
)

func TestC13Rapid(t *testing.T) {
	rec := evid.For("C13")
	runRapid(t, 250, 8000, func(rt *rapid.T) {
		c := rec.Begin()
		nGen := rapid.IntRange(1, 3).Draw(rt, "genesis")
		maxVals := uint32(rapid.IntRange(nGen, 5).Draw(rt, "max"))
		var gp []int64
		if rapid.IntRange(0, 3).Draw(rt, "genesisPowers") == 0 {
			for j := 0; j < nGen; j++ {
				gp = append(gp, int64(rapid.SampledFrom([]int{1, 2, 10, 1000}).Draw(rt, "gpower")))
			}
		}
		if nGen >= 2 && rapid.IntRange(0, 5).Draw(rt, "zeroPowerGenesis") == 0 {
			for len(gp) < nGen {
				gp = append(gp, 1)
			}
			gp[rapid.IntRange(1, nGen-1).Draw(rt, "zeroAt")] = -1
			c.Class("genesis-entry-without-power")
		}
		valWorldLongOps = rapid.IntRange(0, 3).Draw(rt, "longOperators") == 0
		if valWorldLongOps {
			c.Class("operators-with-32-byte-addresses")
		}
		valWorldSecp = rapid.IntRange(0, 3).Draw(rt, "secpKeys") == 0
		if valWorldSecp {
			c.Class("chain-admitting-secp256k1-consensus-keys")
		}
		w, err := newValWorld(nGen, maxVals, uint32(rapid.SampledFrom([]int{0, 1, 3, 100}).Draw(rt, "retention")), gp...)
		valWorldSecp, valWorldLongOps = false, false
		if err != nil {
			rt.Fatalf("C13 violated at genesis: %v", err)
		}
		if err := w.invariants(); err != nil {
			rt.Fatalf("C13 violated at genesis: %v", err)
		}
		blocks := 0
		if w.histN > 0 && rapid.IntRange(0, 11).Draw(rt, "longHistory") == 0 {
			// a chain that has been running for a while with a long retention, which is then cut back in one step
			if _, err := w.setParamsDirect(w.maxVals, 400); err != nil {
				rt.Fatalf("%v", err)
			}
			n := rapid.IntRange(105, 300).Draw(rt, "emptyBlocks")
			for j := 0; j < n; j++ {
				if err := w.beginBlock(); err != nil {
					rt.Fatalf("C13 violated in block %d: %v", j, err)
				}
				if _, err := w.endBlock(); err != nil {
					rt.Fatalf("C13 violated in block %d: %v", j, err)
				}
				w.l2.NextBlock(5 * time.Second)
			}
			if _, err := w.setParamsDirect(w.maxVals, uint32(rapid.IntRange(1, 20).Draw(rt, "cutTo"))); err != nil {
				rt.Fatalf("%v", err)
			}
			w.log = append(w.log[:1], fmt.Sprintf("... %d empty blocks with retention 400, then retention cut to %d", n, w.histN))
			c.Class("long-history-then-retention-cut")
		}
		repeatSteps(rt, 12, func(i int) {
			if rapid.IntRange(0, 11).Draw(rt, "restart") == 0 {
				if err := w.restart(); err != nil {
					rt.Fatalf("C13 violated at the restart before block %d: %v\nhistory:\n%s", i, err, w.history())
				}
				c.Class("genesis-round-trip-between-blocks")
			}
			if err := w.runBlock(rt); err != nil {
				rt.Fatalf("C13 violated in block %d: %v\nhistory:\n%s", i, err, w.history())
			}
			blocks++
		})
		c.Classf("blocks-bucket/%d", bucket(blocks))
		if w.ntBlocks > 0 {
			c.NonTrivial()
			c.Shape(fmt.Sprint(w.log))
			c.Class("block-touching-a-key-or-operator-twice")
		}
		c.Sample(func() interface{} { return map[string]interface{}{"history": w.log} })
		c.Done()
	})
}

func (w *valWorld) clone() *valWorld {
	c := *w
	l2 := *w.l2
	cctx, _ := w.l2.Ctx.CacheContext()
	l2.Ctx = cctx
	if w.l2.Mirror != nil {
		l2.Mirror = w.l2.Mirror.Copy()
	}
	c.l2 = &l2
	cp := func(m map[string]int) map[string]int {
		o := map[string]int{}
		for k, v := range m {
			o[k] = v
		}
		return o
	}
	c.bonded, c.pending, c.keyOf, c.touched = cp(w.bonded), cp(w.pending), cp(w.keyOf), cp(w.touched)
	c.pow = map[string]int64{}
	for k, v := range w.pow {
		c.pow[k] = v
	}
	c.zeroed = map[string]bool{}
	for k, v := range w.zeroed {
		c.zeroed[k] = v
	}
	c.recorded = map[int64]string{}
	for k, v := range w.recorded {
		c.recorded[k] = v
	}
	c.pruned = map[int64]bool{}
	for k, v := range w.pruned {
		c.pruned[k] = v
	}
	c.log = append([]string{}, w.log...)
	return &c
}

// TestC13Exhaustive enumerates every sequence of add / remove / block-boundary tokens up to a
// depth over 3 operators x 3 keys by depth-first search over branched stores.
func TestC13Exhaustive(t *testing.T) {
	rec := evid.For("C13")
	depth := 4
	if thorough() {
		depth = 5
	}
	type op struct {
		kind string
		a, b int
	}
	var alphabet []op
	alphabet = append(alphabet, op{"B", 0, 0})
	for i := 0; i < 3; i++ {
		alphabet = append(alphabet, op{"R", i, 0})
	}
	for i := 0; i < 3; i++ {
		for j := 0; j < 3; j++ {
			alphabet = append(alphabet, op{"A", i, j})
		}
	}
	name := func(o op) string {
		switch o.kind {
		case "A":
			return fmt.Sprintf("A%d%d", o.a, o.b)
		case "R":
			return fmt.Sprintf("R%d", o.a)
		}
		return "|"
	}
	for _, nGen := range []int{1, 2} {
		root, err := newValWorld(nGen, 3, 2)
		if err != nil {
			t.Fatal(err)
		}
		if err := root.beginBlock(); err != nil {
			t.Fatal(err)
		}
		count, firstOp := 0, 0
		var dfs func(w *valWorld, path string, d int)
		dfs = func(w *valWorld, path string, d int) {
			if d == depth {
				// close the open block so that every enumerated sequence ends on a block boundary
				c := w.clone()
				if _, err := c.endBlock(); err != nil {
					caseFail(t, fmt.Sprintf("g%d:%s|", nGen, path), "%v\nhistory:\n%s", err, c.history())
				}
				cs := rec.Begin()
				cs.Class("enumerated-sequence")
				if c.ntBlocks > 0 {
					cs.NonTrivial()
					cs.Shape(fmt.Sprintf("g%d:%s", nGen, path))
				}
				if count%10000 == 0 {
					pp := fmt.Sprintf("genesis=%d ops=%s|", nGen, path)
					cs.Sample(func() interface{} { return map[string]interface{}{"enumerated_sequence": pp} })
				}
				count++
				cs.Done()
				return
			}
			for oi, o := range alphabet {
				if d == 0 {
					firstOp = oi
				}
				if d == 1 && !enumShard(firstOp*len(alphabet)+oi) {
					continue
				}
				npath := path + name(o)
				id := fmt.Sprintf("g%d:%s", nGen, npath)
				if rc := replayCase(); rc != "" && !(len(rc) >= len(id) && rc[:len(id)] == id) {
					continue
				}
				c := w.clone()
				var err error
				switch o.kind {
				case "A":
					_, err = c.add(o.a, o.b)
				case "R":
					var skipped bool
					_, skipped, err = c.remove(o.a)
					if skipped {
						continue
					}
				case "B":
					_, err = c.endBlock()
					if err == nil {
						c.l2.NextBlock(5 * time.Second)
						err = c.beginBlock()
					}
				}
				if err != nil {
					caseFail(t, id, "%v\nhistory:\n%s", err, c.history())
				}
				dfs(c, npath, d+1)
			}
		}
		dfs(root, "", 0)
	}
	rec.ExhaustiveSubspace(fmt.Sprintf("all sequences of %d tokens from {add(op i,key j) for 3x3, remove(op i), block boundary} from genesis sets of 1 and 2 validators (max 3, retention 2), each closed by a block boundary", depth))
}

// TestC13LongRetention: a retention above ten thousand entries is honoured as configured (bounded: one
// chain, 10,100 blocks): every height inside the configured window has its entry, the ones outside are gone.
func TestC13LongRetention(t *testing.T) {
	if cfgShard != 0 {
		return
	}
	rec := evid.For("C13")
	const retention = 10050
	w, err := newValWorld(2, 5, retention)
	if err != nil {
		t.Fatal(err)
	}
	l2 := w.l2
	first := l2.Ctx.BlockHeight()
	for j := 0; j < retention+50; j++ {
		if err := l2.BeginBlock(); err != nil {
			t.Fatal(err)
		}
		if _, err := l2.EndBlock(); err != nil {
			t.Fatal(err)
		}
		l2.NextBlock(time.Second)
	}
	if err := l2.BeginBlock(); err != nil {
		t.Fatal(err)
	}
	h := l2.Ctx.BlockHeight()
	if p, _ := l2.K.GetParams(l2.Ctx); p.HistoricalEntries != retention {
		t.Fatalf("harness: retention is %d", p.HistoricalEntries)
	}
	for _, hh := range []int64{h, h - 1, h - 5000, h - 9999, h - 10000, h - 10001, h - retention + 1} {
		if hh < first {
			continue
		}
		if _, err := l2.K.GetHistoricalInfo(l2.Ctx, hh); err != nil {
			caseFail(t, "retention-10050", "C13 violated: historical info of height %d is missing at height %d although the configured retention is %d entries: %v", hh, h, retention, err)
		}
	}
	if _, err := l2.K.GetHistoricalInfo(l2.Ctx, h-retention-1); err == nil {
		caseFail(t, "retention-10050", "C13 violated: historical info of height %d is still stored at height %d, outside the retention of %d", h-retention-1, h, retention)
	}
	c := rec.Begin()
	c.Class("retention-above-ten-thousand-entries")
	c.Done()
}
