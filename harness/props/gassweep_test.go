package props

import (
	"fmt"
	"testing"

	"cosmossdk.io/math"
	cryptotypes "github.com/cosmos/cosmos-sdk/crypto/types"
	sdk "github.com/cosmos/cosmos-sdk/types"

	opchildtypes "github.com/initia-labs/OPinit/x/opchild/types"

	"verifharness/evid"
	"verifharness/henv"
)

// hookGasSweep delivers one deposit whose hook is a withdrawal by the recipient (who already holds the
// token from an earlier deposit) under every hook gas allowance of a fine grid, each on its own branch
// of the same L2 state. Whatever the allowance, the deposit ends in one of the two stated outcomes:
// supply moves by what was minted minus what was announced as withdrawn, every consumed L2 sequence
// number has its announcement, and a hook reported as failed has left nothing behind.
func hookGasSweep(t *testing.T, prop string, nMsgs int) {
	rec := evid.For(prop)
	tc := newTwoChain(tcOpts{nExecutors: 1})
	l2, exec, u := tc.l2, tc.executors[0].Str, tc.users[1]
	l2.Fund(u.Addr, coinOf("stake", 1000))
	_, p := tc.l1Deposit(tc.users[0], u.Str, coinOf("uinit", 5000), nil)
	if r := l2.Deliver(relayMsg(exec, p)); !r.OK() {
		t.Fatal(r.Err)
	}
	l2denom := tcL2Denom(tc, "uinit")
	num, seq := accInfo(l2, u)
	var msgs []sdk.Msg
	for i := 0; i < nMsgs; i++ {
		msgs = append(msgs, opchildtypes.NewMsgInitiateTokenWithdrawal(u.Str, tc.users[2].Str, sdk.NewCoin(l2denom, math.NewInt(int64(400+i)))))
	}
	data := signTx(l2, msgs, []cryptotypes.PrivKey{u.Priv}, []uint64{num}, []uint64{seq}, henv.L2ChainID)
	_, p = tc.l1Deposit(tc.users[0], u.Str, coinOf("uinit", 300), data)
	msg := relayMsg(exec, p)
	outcomes := map[string]int{}
	step := uint64(150)
	if thorough() {
		step = 37 + uint64(cfgShard) // every shard walks its own grid
	}
	for g := uint64(20_000); g <= 260_000; g += step {
		caseID := fmt.Sprintf("hookMaxGas=%d/msgs=%d", g, nMsgs)
		branchL2(l2, func(b *henv.L2) {
			params, _ := b.K.GetParams(b.Ctx)
			params.HookMaxGas = g
			if err := b.K.SetParams(b.Ctx, params); err != nil {
				t.Fatal(err)
			}
			s0, n0, bal0 := b.Supply(l2denom), nextL2Seq(b), b.Balance(u.Addr, l2denom)
			r := b.Deliver(msg)
			if !r.OK() {
				caseFail(t, caseID, "%s violated: the executor's deposit message failed under a hook gas allowance of %d: %v", prop, g, r.Err)
				return
			}
			ws := parseWithdrawalEvents(r.Events)
			announced := math.ZeroInt()
			for _, w := range ws {
				announced = announced.Add(w.Amount)
			}
			s1, n1, bal1 := b.Supply(l2denom), nextL2Seq(b), b.Balance(u.Addr, l2denom)
			if !s1.Equal(s0.Add(msg.Amount.Amount).Sub(announced)) {
				caseFail(t, caseID, "%s violated: hook gas allowance %d: supply went %s -> %s for a deposit of %s with %s announced as withdrawn (%d announcements)", prop, g, s0, s1, msg.Amount.Amount, announced, len(ws))
			}
			if n1-n0 != uint64(len(ws)) {
				caseFail(t, caseID, "%s violated: hook gas allowance %d: %d withdrawals announced but %d L2 sequence numbers consumed", prop, g, len(ws), n1-n0)
			}
			fin := henv.EventAttrs(r.Events, opchildtypes.EventTypeFinalizeTokenDeposit)
			hookOK := len(fin) == 1 && fin[0][opchildtypes.AttributeKeySuccess] == "true"
			switch {
			case hookOK && len(ws) == nMsgs:
				outcomes["A"]++
			case !hookOK && len(ws) == 1 && ws[0].Amount.Equal(msg.Amount.Amount):
				outcomes["B"]++
				if !bal1.Equal(bal0) {
					caseFail(t, caseID, "%s violated: hook gas allowance %d: the deposit was refunded (hook reported as failed) but the recipient's balance went %s -> %s", prop, g, bal0, bal1)
				}
			default:
				caseFail(t, caseID, "%s violated: hook gas allowance %d: success=%v with %d withdrawal announcements: neither the hook's %d withdrawals with the deposit kept nor exactly the refund", prop, g, hookOK, len(ws), nMsgs)
			}
		})
		c := rec.Begin()
		c.Class("hook-gas-allowance-sweep")
		c.Done()
	}
	if outcomes["A"] == 0 || outcomes["B"] == 0 {
		t.Fatalf("harness: the sweep did not cross the point where the hook starts to fit (%v)", outcomes)
	}
}

func nextL2Seq(b *henv.L2) uint64 {
	n, err := b.K.GetNextL2Sequence(b.Ctx)
	if err != nil {
		panic(err)
	}
	return n
}

func TestC07GasSweep(t *testing.T) { hookGasSweep(t, "C07", 1); hookGasSweep(t, "C07", 3) }
func TestC09GasSweep(t *testing.T) { hookGasSweep(t, "C09", 1); hookGasSweep(t, "C09", 2) }
func TestC08GasSweep(t *testing.T) { hookGasSweep(t, "C08", 1) }
