package props

import (
	"fmt"
	"strconv"
	"strings"
	"testing"

	"cosmossdk.io/math"
	cryptotypes "github.com/cosmos/cosmos-sdk/crypto/types"
	sdk "github.com/cosmos/cosmos-sdk/types"
	banktypes "github.com/cosmos/cosmos-sdk/x/bank/types"
	"pgregory.net/rapid"

	opchildtypes "github.com/initia-labs/OPinit/x/opchild/types"

	"verifharness/evid"
	"verifharness/henv"
)

// c06Deliver delivers msg and checks the statement of C06 for it. next is the model's next
// expected sequence; it returns the new value.
func c06Deliver(l2 *henv.L2, msg *opchildtypes.MsgFinalizeTokenDeposit, isExecutor bool, next uint64) (uint64, string, error) {
	before := l2.Digest()
	supplyBefore := l2.Supply(msg.Amount.Denom)
	r := l2.Deliver(msg)
	after := l2.Digest()
	switch {
	case !isExecutor:
		if r.OK() {
			return next, "stranger", fmt.Errorf("deposit finalization by a non-executor succeeded")
		}
		if before != after {
			return next, "stranger", fmt.Errorf("rejected finalization by a non-executor changed state")
		}
		return next, "stranger", nil
	case msg.Sequence < next:
		if msg.Sequence == 0 {
			if r.OK() || before != after {
				return next, "zero", fmt.Errorf("sequence 0: ok=%v changed=%v", r.OK(), before != after)
			}
			return next, "zero", nil
		}
		if !r.OK() {
			return next, "stale", fmt.Errorf("already processed sequence %d (next %d) returned an error instead of a no-op: %v", msg.Sequence, next, r.Err)
		}
		if resp := r.Resp.(*opchildtypes.MsgFinalizeTokenDepositResponse); resp.Result != opchildtypes.NOOP {
			return next, "stale", fmt.Errorf("already processed sequence %d (next %d) answered %v, want NOOP", msg.Sequence, next, resp.Result)
		}
		if before != after {
			return next, "stale", fmt.Errorf("no-op for processed sequence %d changed state:\n%s", msg.Sequence, henv.DiffKVs(nil, nil))
		}
		if len(r.Events) != 0 {
			return next, "stale", fmt.Errorf("no-op for processed sequence %d emitted events %s", msg.Sequence, henv.RenderEvents(r.Events))
		}
		return next, "stale", nil
	case msg.Sequence > next:
		if r.OK() {
			return next, "ahead", fmt.Errorf("sequence %d ahead of next expected %d was accepted", msg.Sequence, next)
		}
		if before != after {
			return next, "ahead", fmt.Errorf("rejected sequence %d (next %d) changed state", msg.Sequence, next)
		}
		return next, "ahead", nil
	default:
		if !r.OK() {
			return next, "fresh", fmt.Errorf("the next expected sequence %d was not processed: %v", next, r.Err)
		}
		if resp := r.Resp.(*opchildtypes.MsgFinalizeTokenDepositResponse); resp.Result != opchildtypes.SUCCESS {
			return next, "fresh", fmt.Errorf("the next expected sequence %d answered %v", next, resp.Result)
		}
		evs := henv.EventAttrs(r.Events, opchildtypes.EventTypeFinalizeTokenDeposit)
		if len(evs) != 1 || evs[0][opchildtypes.AttributeKeyL1Sequence] != strconv.FormatUint(next, 10) {
			return next, "fresh", fmt.Errorf("processing sequence %d emitted finalize events %v", next, evs)
		}
		// credited-or-refunded exactly once
		ws := parseWithdrawalEvents(r.Events)
		d := l2.Supply(msg.Amount.Denom).Sub(supplyBefore)
		switch {
		case len(ws) == 0 && d.Equal(msg.Amount.Amount):
		case len(ws) == 1 && d.IsZero() && ws[0].Amount.Equal(msg.Amount.Amount):
		default:
			return next, "fresh", fmt.Errorf("sequence %d of %s: supply changed by %s with %d refund withdrawals", next, msg.Amount, d, len(ws))
		}
		return next + 1, "fresh", nil
	}
}

func c06QuerySeq(l2 *henv.L2, next uint64) error {
	res, err := l2.Q.NextL1Sequence(l2.Ctx, &opchildtypes.QueryNextL1SequenceRequest{})
	if err != nil || res.NextL1Sequence != next {
		return fmt.Errorf("Query/NextL1Sequence = %v (err %v), want %d = 1 + processed", res.GetNextL1Sequence(), err, next)
	}
	return nil
}

// c06LongDenom: the longest denom the L1 bank accepts (128 characters)
var c06LongDenom = "d" + strings.Repeat("x", 127)

func TestC06Rapid(t *testing.T) {
	rec := evid.For("C06")
	runRapid(t, 600, 30000, func(rt *rapid.T) {
		c := rec.Begin()
		tc := newTwoChain(tcOpts{nExecutors: rapid.IntRange(1, 3).Draw(rt, "executors"), otherFirst: rapid.IntRange(0, 1).Draw(rt, "otherFirst"),
			fromGenesis: rapid.Bool().Draw(rt, "fromGenesis"), lateBridgeInfo: rapid.IntRange(0, 3).Draw(rt, "lateBridgeInfo") == 0})
		if tc.opts.fromGenesis {
			c.Class("l2-started-from-default-genesis")
		}
		if rapid.IntRange(0, 3).Draw(rt, "presetMetadata") == 0 {
			// the L2 bank module already has display metadata for the bridged tokens (e.g. from its genesis)
			for _, d := range []string{"uinit", "uusdc"} {
				l2d := tcL2Denom(tc, d)
				presetBankMetadata(rt, tc.l2, l2d)
			}
			c.Class("l2-bank-metadata-preset")
		}
		stranger := henv.MakeUser("c06-stranger")
		nd := rapid.IntRange(1, 6).Draw(rt, "deposits")
		var pend []*pendingDeposit
		for _, ex := range tc.executors {
			tc.l2.Fund(ex.Addr, coinOf("stake", 10)) // executors have accounts on L2
		}
		hookSeq := map[string]uint64{}
		for i := 0; i < nd; i++ {
			to := tc.users[rapid.IntRange(0, len(tc.users)-1).Draw(rt, "to")].Str
			if rapid.IntRange(0, 3).Draw(rt, "badto") == 0 {
				to = "not-an-address-" + fmt.Sprint(i)
			}
			amt := int64(rapid.IntRange(0, 5000).Draw(rt, "amt"))
			from := tc.users[rapid.IntRange(0, len(tc.users)-1).Draw(rt, "from")]
			denom := rapid.SampledFrom([]string{"uinit", "uusdc", "uinit", "uusdc", c06LongDenom}).Draw(rt, "denom")
			if denom == c06LongDenom {
				tc.l1.Fund(from.Addr, coinOf(denom, 1_000_000))
				c.Class("deposit-of-a-token-with-a-128-character-denom")
			}
			var data []byte
			if rapid.IntRange(0, 4).Draw(rt, "reentrant") == 0 {
				// a racing executor: the deposit's hook is a transaction, signed by an authorised executor, that
				// delivers this very deposit again while it is being processed
				ex := tc.executors[rapid.IntRange(0, len(tc.executors)-1).Draw(rt, "hookexec")]
				num, _ := accInfo(tc.l2, ex)
				seq := uint64(len(pend) + 1) // its own sequence; delivering a later one would be fabricating a deposit
				inner := opchildtypes.NewMsgFinalizeTokenDeposit(ex.Str, from.Str, to, sdk.NewCoin(tcL2Denom(tc, denom), math.NewInt(amt)), seq, uint64(tc.l1.Ctx.BlockHeight()), denom, nil)
				data = signTx(tc.l2, []sdk.Msg{inner}, []cryptotypes.PrivKey{ex.Priv}, []uint64{num}, []uint64{hookSeq[ex.Str]}, henv.L2ChainID)
				hookSeq[ex.Str]++
				c.Class("deposit-with-reentrant-delivery-hook")
			}
			if data == nil && rapid.IntRange(0, 5).Draw(rt, "nestedNext") == 0 {
				// the hook (signed by an executor) relays the deposit after this one and then fails: the whole hook
				// is rolled back, so neither state nor events may show the inner relay
				ex := tc.executors[rapid.IntRange(0, len(tc.executors)-1).Draw(rt, "hookexec2")]
				num, _ := accInfo(tc.l2, ex)
				inner := opchildtypes.NewMsgFinalizeTokenDeposit(ex.Str, from.Str, tc.users[0].Str, sdk.NewCoin(tcL2Denom(tc, denom), math.NewInt(5)), uint64(len(pend)+2), uint64(tc.l1.Ctx.BlockHeight()), denom, nil)
				failing := banktypes.NewMsgSend(ex.Addr, tc.users[0].Addr, sdk.NewCoins(sdk.NewCoin("stake", math.NewInt(1<<50))))
				data = signTx(tc.l2, []sdk.Msg{inner, failing}, []cryptotypes.PrivKey{ex.Priv}, []uint64{num}, []uint64{hookSeq[ex.Str]}, henv.L2ChainID)
				hookSeq[ex.Str]++
				c.Class("deposit-whose-hook-relays-the-next-sequence-and-fails")
			}
			if data == nil && rapid.IntRange(0, 5).Draw(rt, "multibyteFailure") == 0 {
				// hook data that fails with a reason of many bytes and few characters
				data = multibyteHookData(rapid.IntRange(20, 40).Draw(rt, "emoji"))
				c.Class("deposit-whose-hook-fails-with-a-multibyte-reason")
			}
			coin := coinOf(denom, amt)
			if data == nil && rapid.IntRange(0, 9).Draw(rt, "hugeAmount") == 0 {
				// an amount above 2^63-1 that still fits the 64 bits L1 accepts (ten units of an 18-decimals token)
				huge := math.NewIntFromUint64(1<<63 + uint64(rapid.IntRange(0, 1000).Draw(rt, "hugeExtra")))
				tc.l1.Fund(from.Addr, sdk.NewCoin(denom, huge))
				coin = sdk.NewCoin(denom, huge)
				c.Class("deposit-of-2^63-or-more")
			}
			_, p := tc.l1Deposit(from, to, coin, data)
			if p == nil {
				rt.Fatalf("setup: L1 deposit rejected")
			}
			pend = append(pend, p)
		}
		next := uint64(1)
		sawDup, sawGap := false, false
		shape := ""
		repeatSteps(rt, 30, func(i int) {
			switch drawWeighted(rt, "op", []weighted{{"deliver", 16}, {"transfer", 2}, {"withdraw", 2}, {"restart", 1}, {"bridge-info", 1}, {"reverted", 1}}) {
			case "bridge-info":
				// the executor registers the bridge info (for the first time, if the L2 started without it)
				if !tc.infoSet {
					c.Class("bridge-info-registered-after-deposits-were-processed")
				}
				tc.registerBridgeInfo()
			case "reverted":
				// the executor's transaction with the next relay runs and is rolled back as a whole (a later message
				// of it failed, or it was a simulation): the counter stays where it was
				if next <= uint64(len(pend)) {
					branchL2(tc.l2, func(b *henv.L2) { b.Deliver(relayMsg(tc.executors[0].Str, pend[next-1])) })
					tc.logf("relay of %d inside a transaction that is rolled back", next)
					c.Class("relay-inside-a-rolled-back-transaction")
				}
			case "restart":
				// the L2 is exported and restarted from that genesis in the middle of the schedule
				tc.restartL2()
				c.Class("genesis-round-trip-inside-schedule")
			case "deliver":
				var seq uint64
				switch drawWeighted(rt, "seqkind", []weighted{{"next", 8}, {"stale", 5}, {"ahead", 3}, {"any", 2}}) {
				case "next":
					seq = next
				case "stale":
					if next > 1 {
						seq = uint64(rapid.IntRange(1, int(next-1)).Draw(rt, "stale"))
					} else {
						seq = next
					}
				case "ahead":
					seq = next + uint64(rapid.IntRange(1, 3).Draw(rt, "ahead"))
					if rapid.IntRange(0, 3).Draw(rt, "farahead") == 0 {
						seq = rapid.SampledFrom([]uint64{next + 1<<63, next + 1<<63 - 1, ^uint64(0), 1 << 63, ^uint64(0) - 1}).Draw(rt, "far")
					}
				case "any":
					seq = uint64(rapid.IntRange(0, nd+2).Draw(rt, "seq"))
				}
				isExec := rapid.IntRange(0, 9).Draw(rt, "byexec") < 9
				sender := stranger.Str
				if isExec {
					sender = tc.executors[rapid.IntRange(0, len(tc.executors)-1).Draw(rt, "exec")].Str
				}
				var msg *opchildtypes.MsgFinalizeTokenDeposit
				if seq >= 1 && seq <= uint64(len(pend)) && !(seq < next && rapid.IntRange(0, 2).Draw(rt, "staleOtherContent") == 0) {
					msg = relayMsg(sender, pend[seq-1])
				} else if seq >= 1 && seq < next {
					// an already processed sequence number with other content (another denom, recipient, amount)
					cp := *pend[0]
					cp.Seq, cp.L1Denom, cp.L2Denom, cp.To = seq, "unseen", tcL2Denom(tc, "unseen"), tc.users[0].Str
					cp.Amount = math.NewInt(int64(rapid.IntRange(0, 9).Draw(rt, "staleamt")))
					msg = relayMsg(sender, &cp)
					c.Class("stale-sequence-with-other-content")
				} else {
					// no such L1 deposit: an executor can only fabricate it
					cp := *pend[0]
					cp.Seq = seq
					msg = relayMsg(sender, &cp)
				}
				if isExec && seq >= 1 && seq < next {
					sawDup = true
				}
				if isExec && seq > next {
					sawGap = true
				}
				if isExec && seq == next && seq > uint64(len(pend)) {
					// a fabricated deposit at the expected sequence is outside the domain ("faithful relay"): skip
					return
				}
				n2, kind, err := c06Deliver(tc.l2, msg, isExec, next)
				tc.logf("deliver(seq=%d by=%s exec=%v next=%d) -> %s", seq, short(sender), isExec, next, kind)
				if err != nil {
					rt.Fatalf("C06 violated at step %d: %v\nhistory:\n%s", i, err, strings.Join(tc.log, "\n"))
				}
				next = n2
				c.Class("deliver/" + kind)
				shape += kind[:2]
			case "transfer":
				from, to := tc.users[rapid.IntRange(0, 4).Draw(rt, "tf")], tc.users[rapid.IntRange(0, 4).Draw(rt, "tt")]
				bal := tc.l2.BK.GetAllBalances(tc.l2.Ctx, from.Addr)
				if len(bal) > 0 {
					tc.l2.Deliver(banktypes.NewMsgSend(from.Addr, to.Addr, sdk.NewCoins(sdk.NewCoin(bal[0].Denom, math.OneInt()))))
					tc.logf("transfer")
				}
			case "withdraw":
				from := tc.users[rapid.IntRange(0, 4).Draw(rt, "wf")]
				bal := tc.l2.BK.GetAllBalances(tc.l2.Ctx, from.Addr)
				if len(bal) > 0 {
					r := tc.l2.Deliver(opchildtypes.NewMsgInitiateTokenWithdrawal(from.Str, from.Str, sdk.NewCoin(bal[0].Denom, math.OneInt())))
					tc.logf("withdraw -> %v", r.Err)
				}
			}
			if err := c06QuerySeq(tc.l2, next); err != nil {
				rt.Fatalf("C06 violated after step %d: %v\nhistory:\n%s", i, err, strings.Join(tc.log, "\n"))
			}
		})
		if sawDup && sawGap {
			c.NonTrivial()
			c.Shape(shape)
		}
		c.Classf("executors=%d", len(tc.executors))
		c.Sample(func() interface{} { return map[string]interface{}{"deposits": nd, "schedule": tc.log} })
		c.Done()
	})
}

func TestC06Exhaustive(t *testing.T) {
	rec := evid.For("C06")
	depth := 5
	if thorough() {
		depth = 6
	}
	tc := newTwoChain(tcOpts{nExecutors: 2})
	stranger := henv.MakeUser("c06-stranger")
	_, pA := tc.l1Deposit(tc.users[0], tc.users[1].Str, coinOf("uinit", 5), nil)
	_, pB := tc.l1Deposit(tc.users[1], "not-an-address", coinOf("uinit", 7), nil)
	_, pC := tc.l1Deposit(tc.users[2], tc.users[3].Str, coinOf("uusdc", 0), nil)
	pend := []*pendingDeposit{pA, pB, pC}
	type op struct {
		seq  uint64
		exec int // 0,1 executors; 2 stranger delivering the next sequence; 3 = user withdrawal
	}
	var alphabet []op
	for s := uint64(1); s <= 4; s++ {
		for e := 0; e < 2; e++ {
			alphabet = append(alphabet, op{s, e})
		}
	}
	alphabet = append(alphabet, op{0, 2}, op{0, 3})
	name := func(o op) string {
		switch o.exec {
		case 2:
			return "X"
		case 3:
			return "W"
		}
		return fmt.Sprintf("%d%c", o.seq, 'a'+o.exec)
	}
	count, firstOp := 0, 0
	l2denom := pA.L2Denom
	var dfs func(ctx sdk.Context, next uint64, path string, d int, dup, gap bool)
	dfs = func(ctx sdk.Context, next uint64, path string, d int, dup, gap bool) {
		if d == depth {
			return
		}
		for oi, o := range alphabet {
			if d == 0 {
				firstOp = oi
			}
			if d == 1 && !enumShard(firstOp*len(alphabet)+oi) {
				continue
			}
			npath := path + name(o) + " "
			if rc := replayCase(); rc != "" && !(len(rc) >= len(npath) && rc[:len(npath)] == npath) && !(len(npath) >= len(rc) && npath[:len(rc)] == rc) {
				continue
			}
			cctx, _ := ctx.CacheContext()
			l2 := *tc.l2
			l2.Ctx = cctx
			nn, ndup, ngap := next, dup, gap
			switch o.exec {
			case 3:
				r := l2.Deliver(opchildtypes.NewMsgInitiateTokenWithdrawal(tc.users[1].Str, tc.users[1].Str, sdk.NewCoin(l2denom, math.OneInt())))
				has := tc.l2.BK.GetBalance(ctx, tc.users[1].Addr, l2denom).Amount.IsPositive()
				if r.OK() != has {
					caseFail(t, npath, "withdrawal of 1 with balance>0=%v: ok=%v (%v)", has, r.OK(), r.Err)
				}
			default:
				seq := o.seq
				sender := stranger.Str
				isExec := o.exec < 2
				if isExec {
					sender = tc.executors[o.exec].Str
				} else {
					seq = next
				}
				if seq == next && int(seq) > len(pend) {
					continue // nothing pending at the expected sequence: a faithful relay has nothing to send
				}
				var msg *opchildtypes.MsgFinalizeTokenDeposit
				if int(seq) <= len(pend) {
					msg = relayMsg(sender, pend[seq-1])
				} else {
					cp := *pend[0]
					cp.Seq = seq
					msg = relayMsg(sender, &cp)
				}
				var err error
				nn, _, err = c06Deliver(&l2, msg, isExec, next)
				if err != nil {
					caseFail(t, npath, "%v", err)
				}
				if isExec && seq < next {
					ndup = true
				}
				if isExec && seq > next {
					ngap = true
				}
			}
			if err := c06QuerySeq(&l2, nn); err != nil {
				caseFail(t, npath, "%v", err)
			}
			count++
			if d+1 == depth {
				c := rec.Begin()
				c.Class("enumerated-schedule")
				if ndup && ngap {
					c.NonTrivial()
					c.Shape(npath)
				}
				if count%20000 == 1 {
					pp := npath
					c.Sample(func() interface{} {
						return map[string]interface{}{"enumerated_schedule": pp, "next_expected_after": nn}
					})
				}
				c.Done()
			}
			dfs(l2.Ctx, nn, npath, d+1, ndup, ngap)
		}
	}
	dfs(tc.l2.Ctx, 1, "", 0, false, false)
	rec.ExhaustiveSubspace(fmt.Sprintf("all delivery schedules of length %d over 3 pending deposits (credited, refunded, zero-amount), sequences 1..4, two executors, a stranger and an interleaved user withdrawal", depth))
}
