package props

import (
	"context"
	"errors"
	"fmt"
	"math/big"
	"sort"
	"strings"
	"testing"

	"cosmossdk.io/math"
	sdk "github.com/cosmos/cosmos-sdk/types"
	"github.com/cosmos/cosmos-sdk/x/authz"
	banktypes "github.com/cosmos/cosmos-sdk/x/bank/types"
	protov2 "google.golang.org/protobuf/proto"
	"pgregory.net/rapid"

	"github.com/initia-labs/OPinit/x/opchild/ante"
	"github.com/initia-labs/OPinit/x/opchild/lanes"
	opchildtypes "github.com/initia-labs/OPinit/x/opchild/types"

	"verifharness/evid"
	"verifharness/henv"
)

// feeTx is the smallest sdk.Tx / sdk.FeeTx: the checkers under test only read these fields.
type feeTx struct {
	msgs    []sdk.Msg
	gas     uint64
	fee     sdk.Coins
	payer   []byte
	granter []byte
}

func (t feeTx) GetMsgs() []sdk.Msg                    { return t.msgs }
func (t feeTx) GetMsgsV2() ([]protov2.Message, error) { return nil, nil }
func (t feeTx) GetGas() uint64                        { return t.gas }
func (t feeTx) GetFee() sdk.Coins                     { return t.fee }
func (t feeTx) FeePayer() []byte                      { return t.payer }
func (t feeTx) FeeGranter() []byte                    { return t.granter }

type fixedPrices struct{ p sdk.DecCoins }

func (f fixedPrices) MinGasPrices(context.Context) (sdk.DecCoins, error) { return f.p, nil }

var c20Denoms = []string{"aaa", "stake", "zzz"}

// genPrices draws a price vector (18 decimals) over a subset of the denoms.
func genPrices(rt *rapid.T, label string) (sdk.DecCoins, map[string]*big.Rat) {
	var dcs []sdk.DecCoin
	rats := map[string]*big.Rat{}
	for _, d := range c20Denoms {
		switch rapid.SampledFrom([]string{"none", "none", "frac", "small", "one", "large"}).Draw(rt, label+"/"+d) {
		case "none":
			continue
		case "frac":
			v := rapid.Int64Range(1, 999_999_999_999_999_999).Draw(rt, label+"/frac")
			dcs = append(dcs, sdk.NewDecCoinFromDec(d, math.LegacyNewDecWithPrec(v, 18)))
		case "small":
			dcs = append(dcs, sdk.NewDecCoinFromDec(d, math.LegacyNewDecWithPrec(rapid.Int64Range(1, 1000).Draw(rt, label+"/small"), 18)))
		case "one":
			dcs = append(dcs, sdk.NewDecCoinFromDec(d, math.LegacyOneDec()))
		case "large":
			dcs = append(dcs, sdk.NewDecCoinFromDec(d, math.LegacyNewDec(rapid.Int64Range(2, 1_000_000_000).Draw(rt, label+"/large"))))
		}
	}
	out := sdk.NewDecCoins(dcs...)
	scale := new(big.Int).Exp(big.NewInt(10), big.NewInt(18), nil)
	for _, dc := range out {
		rats[dc.Denom] = new(big.Rat).SetFrac(dc.Amount.BigInt(), scale)
	}
	return out, rats
}

func ceilRat(r *big.Rat) *big.Int {
	q, m := new(big.Int).QuoRem(r.Num(), r.Denom(), new(big.Int))
	if m.Sign() > 0 {
		q.Add(q, big.NewInt(1))
	}
	return q
}

func TestC20Fee(t *testing.T) {
	rec := evid.For("C20")
	l2 := henv.NewL2(henv.L2Options{Admin: henv.MakeUser("a").Str, Executors: []string{henv.MakeUser("a").Str}})
	runRapid(t, 20000, 200000, func(rt *rapid.T) {
		c := rec.Begin()
		c.Class("fee")
		node, nodeR := genPrices(rt, "node")
		chain, chainR := genPrices(rt, "chain")
		gas := rapid.OneOf(rapid.SampledFrom([]uint64{0, 1, 200_000, 1 << 63, ^uint64(0)}), rapid.Uint64Range(0, 10_000_000)).Draw(rt, "gas")
		// floors: pointwise maximum
		floor := map[string]*big.Rat{}
		for _, m := range []map[string]*big.Rat{nodeR, chainR} {
			for d, v := range m {
				if cur, ok := floor[d]; !ok || v.Cmp(cur) > 0 {
					floor[d] = v
				}
			}
		}
		req := map[string]*big.Int{}
		for d, f := range floor {
			req[d] = ceilRat(new(big.Rat).Mul(f, new(big.Rat).SetInt(new(big.Int).SetUint64(gas))))
		}
		// fee: per denom none / below / exactly / above the requirement / arbitrary
		var fee sdk.Coins
		for _, d := range c20Denoms {
			var amt *big.Int
			switch rapid.SampledFrom([]string{"none", "none", "exact", "below", "above", "any"}).Draw(rt, "fee/"+d) {
			case "none":
				continue
			case "exact":
				if r, ok := req[d]; ok {
					amt = new(big.Int).Set(r)
				} else {
					amt = big.NewInt(5)
				}
			case "below":
				if r, ok := req[d]; ok && r.Sign() > 0 {
					amt = new(big.Int).Sub(r, big.NewInt(1))
				} else {
					amt = big.NewInt(1)
				}
			case "above":
				if r, ok := req[d]; ok {
					amt = new(big.Int).Add(r, big.NewInt(int64(rapid.IntRange(1, 1000).Draw(rt, "more"))))
				} else {
					amt = big.NewInt(9)
				}
			case "any":
				amt = big.NewInt(rapid.Int64Range(1, 1_000_000_000_000).Draw(rt, "anyfee"))
			}
			if amt.Sign() > 0 {
				fee = fee.Add(sdk.NewCoin(d, math.NewIntFromBigInt(amt)))
			}
		}
		mode := rapid.SampledFrom([]string{"check", "check", "check", "recheck", "deliver", "simulate", "prepare-proposal", "process-proposal", "finalize"}).Draw(rt, "mode")
		ctx := l2.Ctx.WithMinGasPrices(node)
		switch mode {
		case "check":
			ctx = ctx.WithIsCheckTx(true)
		case "recheck":
			ctx = ctx.WithIsReCheckTx(true)
		case "simulate":
			ctx = ctx.WithExecMode(sdk.ExecModeSimulate)
		case "prepare-proposal":
			ctx = ctx.WithExecMode(sdk.ExecModePrepareProposal) // block building: the mempool has admitted the transaction already
		case "process-proposal":
			ctx = ctx.WithExecMode(sdk.ExecModeProcessProposal)
		case "finalize":
			ctx = ctx.WithExecMode(sdk.ExecModeFinalize)
		}
		checking := ctx.IsCheckTx()
		tx := feeTx{gas: gas, fee: fee}
		_, prio, err := ante.NewMempoolFeeChecker(fixedPrices{chain}).CheckTxFeeWithMinGasPrices(ctx, tx)
		admitted := err == nil
		// combined prices
		comb := ante.CombinedMinGasPrices(node, chain)
		if len(comb) != len(floor) {
			rt.Fatalf("C20 violated: CombinedMinGasPrices(%s, %s) = %s has %d entries, pointwise maximum has %d", node, chain, comb, len(comb), len(floor))
		}
		scale := new(big.Int).Exp(big.NewInt(10), big.NewInt(18), nil)
		for i, dc := range comb {
			if dc.Amount.IsZero() || (i > 0 && comb[i-1].Denom >= dc.Denom) {
				rt.Fatalf("C20 violated: combined prices %s are not sorted / contain zero", comb)
			}
			if f, ok := floor[dc.Denom]; !ok || new(big.Rat).SetFrac(dc.Amount.BigInt(), scale).Cmp(f) != 0 {
				rt.Fatalf("C20 violated: combined price of %s is %s, maximum of node %s and chain %s expected", dc.Denom, dc.Amount, node, chain)
			}
		}
		satisfied, satisfiedPositive := false, false
		nSat := 0
		for d, r := range req {
			have := fee.AmountOf(d).BigInt()
			if have.Cmp(r) >= 0 {
				satisfied = true
				if r.Sign() > 0 {
					satisfiedPositive = true
					nSat++
				}
			}
		}
		desc := fmt.Sprintf("mode=%s gas=%d node=%s chain=%s fee=%s", mode, gas, node, chain, fee)
		switch {
		case !checking:
			if !admitted {
				rt.Fatalf("C20 violated: fee floor enforced outside transaction checking: %v\n%s", err, desc)
			}
		case len(floor) == 0:
			if !admitted {
				rt.Fatalf("C20 violated: rejected although every floor price is zero: %v\n%s", err, desc)
			}
		default:
			if admitted && !satisfied {
				rt.Fatalf("C20 violated: admitted although no denom with a positive floor carries fee >= ceil(gas * max(node, chain)); required %v\n%s", req, desc)
			}
			if !admitted && satisfiedPositive {
				rt.Fatalf("C20 violated: rejected (%v) although a denom satisfies its requirement %v\n%s", err, req, desc)
			}
		}
		if admitted && prio != 1 {
			rt.Fatalf("C20: unexpected priority %d", prio)
		}
		disagree := false
		for d, v := range nodeR {
			if cv, ok := chainR[d]; ok && cv.Cmp(v) != 0 {
				disagree = true
			}
		}
		if checking && len(floor) > 0 && (nSat == 1 || disagree) {
			c.NonTrivial()
			c.Shape(fmt.Sprintf("%d/%d/%v/%v/%v/%d", len(nodeR), len(chainR), disagree, admitted, gas == 0, nSat))
		}
		c.Classf("fee/admitted=%v/checking=%v", admitted, checking)
		c.Sample(func() interface{} { return map[string]interface{}{"fee_case": desc, "admitted": admitted} })
		c.Done()
	})
}

func TestC20Lanes(t *testing.T) {
	rec := evid.For("C20")
	users := []henv.User{henv.MakeUser("lane-0"), henv.MakeUser("lane-1"), henv.MakeUser("lane-2"), henv.MakeUser("lane-3")}
	l2 := henv.NewL2(henv.L2Options{Admin: users[0].Str, Executors: []string{users[0].Str}})
	sys := lanes.SystemLaneMatchHandler()
	runRapid(t, 5000, 150000, func(rt *rapid.T) {
		c := rec.Begin()
		c.Class("lanes")
		var genMsg func(depth int) (sdk.Msg, string)
		genMsg = func(depth int) (sdk.Msg, string) {
			kinds := []string{"oracle", "oracle", "send", "withdraw", "exec"}
			if depth >= 3 {
				kinds = kinds[:4]
			}
			switch rapid.SampledFrom(kinds).Draw(rt, "msgkind") {
			case "oracle":
				return opchildtypes.NewMsgUpdateOracle(users[0].Str, 5, []byte{1}), "O"
			case "send":
				return banktypes.NewMsgSend(users[0].Addr, users[1].Addr, sdk.NewCoins(coinOf("stake", 1))), "S"
			case "withdraw":
				return opchildtypes.NewMsgInitiateTokenWithdrawal(users[0].Str, "x", coinOf("stake", 1)), "W"
			default:
				n := rapid.IntRange(0, 2).Draw(rt, "inner")
				var inner []sdk.Msg
				s := "E("
				for i := 0; i < n; i++ {
					m, d := genMsg(depth + 1)
					inner = append(inner, m)
					s += d
				}
				e := authz.NewMsgExec(users[2].Addr, inner)
				return &e, s + ")"
			}
		}
		n := rapid.IntRange(0, 3).Draw(rt, "nmsgs")
		var msgs []sdk.Msg
		shape := ""
		for i := 0; i < n; i++ {
			m, d := genMsg(0)
			msgs = append(msgs, m)
			shape += d
		}
		wantSystem := shape == "O" || shape == "E(O)"
		// the handler is built once, as at lane construction, and then serves several rounds in which the
		// on-chain whitelist changes - within one block height (CheckTx state vs. proposal state) or across heights
		free := lanes.NewFreeLaneMatchHandler(l2.AK.AddressCodec(), l2.K).MatchHandler()
		var wl []string
		var wantFree bool
		gi := -1
		rounds := rapid.IntRange(1, 3).Draw(rt, "rounds")
		for round := 0; round < rounds; round++ {
			if round > 0 && rapid.Bool().Draw(rt, "nextHeight") {
				l2.Ctx = l2.Ctx.WithBlockHeight(l2.Ctx.BlockHeight() + 1)
			}
			// whitelist / payer / granter
			wl = nil
			for _, u := range users {
				if rapid.Bool().Draw(rt, "wl") {
					wl = append(wl, u.Str)
				}
			}
			p, _ := l2.K.GetParams(l2.Ctx)
			p.FeeWhitelist = wl
			if err := l2.K.SetParams(l2.Ctx, p); err != nil {
				panic(err)
			}
			if rapid.IntRange(0, 4).Draw(rt, "blankEntry") == 0 {
				// a parameter update whose whitelist carries a blank entry next to the real ones (a placeholder left in a
				// config template): refused, or stored - either way nobody is exempt through it
				p.FeeWhitelist = append(append([]string{}, wl...), "")
				r := l2.Deliver(opchildtypes.NewMsgUpdateParams(l2.Authority, &p))
				if r.OK() {
					wl = p.FeeWhitelist
				}
				c.Class("lanes/parameter-update-with-a-blank-whitelist-entry")
			}
			payer := users[rapid.IntRange(0, 3).Draw(rt, "payer")]
			var granter []byte
			gi = rapid.IntRange(-1, 3).Draw(rt, "granter")
			if gi >= 0 {
				granter = users[gi].Addr
			}
			inWL := func(a string) bool {
				for _, x := range wl {
					if x == a {
						return true
					}
				}
				return false
			}
			wantFree = inWL(payer.Str) || (gi >= 0 && inWL(users[gi].Str))
			tx := feeTx{msgs: msgs, payer: payer.Addr, granter: granter}
			if got := sys(l2.Ctx, tx); got != wantSystem {
				rt.Fatalf("C20 violated: transaction %q treated as system transaction = %v, statement says %v", shape, got, wantSystem)
			}
			if got := free(l2.Ctx, tx); got != wantFree {
				rt.Fatalf("C20 violated: fee exemption = %v for payer %s granter %v whitelist %v (round %d of one handler, height %d), statement says %v", got, payer.Str, gi, wl, round, l2.Ctx.BlockHeight(), wantFree)
			}
			if round > 0 {
				c.Class("lanes/whitelist-changed-under-a-live-handler")
			}
		}
		if len(shape) > 1 && (len(shape) > 3 || shape[0] == 'E') {
			c.NonTrivial()
			c.Shape(fmt.Sprintf("%s/%v/%v", shape, wantFree, gi >= 0))
			c.Class("lanes/nested")
		}
		c.Sample(func() interface{} {
			return map[string]interface{}{"messages": shape, "system_lane": wantSystem, "whitelist": len(wl), "free_lane": wantFree}
		})
		c.Done()
	})
}

func TestC20Redundant(t *testing.T) {
	rec := evid.For("C20")
	runRapid(t, 1500, 60000, func(rt *rapid.T) {
		c := rec.Begin()
		c.Class("redundancy")
		tc := newTwoChain(tcOpts{nExecutors: rapid.IntRange(1, 3).Draw(rt, "executors")})
		l2 := tc.l2
		// any of the listed executors relays
		exec := tc.executors[rapid.IntRange(0, len(tc.executors)-1).Draw(rt, "relayer")].Str
		if len(tc.executors) > 1 {
			c.Class("redundancy/several-executors")
		}
		// process a drawn number of deposits so that NextL1Sequence = n+1
		n := rapid.IntRange(0, 4).Draw(rt, "processed")
		var pend []*pendingDeposit
		for i := 0; i < n+3; i++ {
			// one deposit in three cannot be credited on L2 (it ends as a refund withdrawal): fresh all the same
			to := tc.users[1].Str
			if rapid.IntRange(0, 2).Draw(rt, "refunded") == 0 {
				to = "not-an-l2-address"
				c.Class("redundancy/pending-deposit-that-will-be-refunded")
			}
			amt := int64(10 + i)
			if rapid.IntRange(0, 3).Draw(rt, "zeroAmount") == 0 {
				amt = 0 // a deposit of nothing (L1 accepts it; it is a fresh deposit like any other)
				c.Class("session/zero-amount-deposit")
			}
			_, p := tc.l1Deposit(tc.users[0], to, coinOf("uinit", amt), nil)
			pend = append(pend, p)
		}
		for i := 0; i < n; i++ {
			if r := l2.Deliver(relayMsg(exec, pend[i])); !r.OK() {
				panic(r.Err)
			}
		}
		next := uint64(n + 1)
		// message list
		var msgs []sdk.Msg
		shape := ""
		nd, stale, fresh, broken := 0, 0, 0, false
		expectNext := next
		for i := rapid.IntRange(0, 4).Draw(rt, "nmsgs"); i > 0; i-- {
			switch rapid.SampledFrom([]string{"stale", "stale", "fresh", "other", "gap"}).Draw(rt, "kind") {
			case "stale":
				if n == 0 {
					continue
				}
				msgs = append(msgs, relayMsg(exec, pend[rapid.IntRange(0, n-1).Draw(rt, "which")]))
				nd++
				stale++
				shape += "s"
			case "fresh":
				if int(expectNext) > len(pend) {
					continue
				}
				msgs = append(msgs, relayMsg(exec, pend[expectNext-1]))
				expectNext++
				nd++
				fresh++
				shape += "f"
			case "gap":
				if int(expectNext)+1 > len(pend) {
					continue
				}
				msgs = append(msgs, relayMsg(exec, pend[expectNext])) // one ahead of the expected sequence
				nd++
				broken = true
				shape += "g"
			case "other":
				msgs = append(msgs, banktypes.NewMsgSend(tc.users[0].Addr, tc.users[1].Addr, sdk.NewCoins(coinOf("stake", 1))))
				shape += "o"
			}
		}
		mode := rapid.SampledFrom([]string{"check", "check", "recheck", "deliver", "simulate"}).Draw(rt, "mode")
		cctx, _ := l2.Ctx.CacheContext()
		simulate := false
		switch mode {
		case "check":
			cctx = cctx.WithIsCheckTx(true)
		case "recheck":
			cctx = cctx.WithIsReCheckTx(true)
		case "simulate":
			cctx = cctx.WithIsCheckTx(true)
			simulate = true
		}
		nextCalled := false
		_, err := ante.NewRedundantBridgeDecorator(l2.K).AnteHandle(cctx, feeTx{msgs: msgs}, simulate, func(ctx sdk.Context, tx sdk.Tx, sim bool) (sdk.Context, error) {
			nextCalled = true
			return ctx, nil
		})
		desc := fmt.Sprintf("mode=%s next=%d msgs=%q", mode, next, shape)
		checking := (mode == "check" || mode == "recheck")
		switch {
		case !checking:
			if err != nil || !nextCalled {
				rt.Fatalf("C20 violated: redundancy filter active outside transaction checking: %v\n%s", err, desc)
			}
		case broken:
			// a deposit ahead of the expected sequence: the statement leaves this free
		case nd > 0 && fresh == 0:
			if !errors.Is(err, opchildtypes.ErrRedundantTx) {
				rt.Fatalf("C20 violated: transaction of only already processed deposit finalizations was not rejected as redundant (err %v)\n%s", err, desc)
			}
		default:
			if err != nil || !nextCalled {
				rt.Fatalf("C20 violated: transaction with a fresh deposit finalization (or none at all) did not pass: %v\n%s", err, desc)
			}
		}
		if checking && stale > 0 && fresh > 0 {
			c.NonTrivial()
			c.Shape(desc)
			c.Class("redundancy/stale-and-fresh")
		}
		c.Sample(func() interface{} { return map[string]interface{}{"redundancy_case": desc, "error": fmt.Sprint(err)} })
		c.Done()
	})
}

var _ = sort.Strings

// TestC20Session: one check state serving several transactions, as a node's mempool does between two
// commits: each transaction is checked (CheckTx or ReCheckTx) on a branch of the check state that is
// written back when it is admitted. "Already processed" is relative to that check state: a deposit
// admitted earlier in the session makes a later copy of it redundant and the next sequence fresh.
func TestC20Session(t *testing.T) {
	rec := evid.For("C20")
	runRapid(t, 800, 10000, func(rt *rapid.T) {
		c := rec.Begin()
		c.Class("session")
		tc := newTwoChain(tcOpts{nExecutors: rapid.IntRange(1, 2).Draw(rt, "executors")})
		l2 := tc.l2
		exec := tc.executors[rapid.IntRange(0, len(tc.executors)-1).Draw(rt, "relayer")].Str
		if rapid.IntRange(0, 3).Draw(rt, "presetMetadata") == 0 {
			// the L2 bank module already has display metadata for the bridged token (written by the operator's genesis)
			d := tcL2Denom(tc, "uinit")
			presetBankMetadata(rt, l2, d)
			c.Class("session/l2-bank-metadata-preset")
		}
		if rapid.IntRange(0, 3).Draw(rt, "smallHookAllowance") == 0 {
			// the chain allows hooks very little gas (less than a plain deposit costs): that bounds hooks, not deposits
			p, _ := l2.K.GetParams(l2.Ctx)
			p.HookMaxGas = uint64(rapid.SampledFrom([]int{1, 500, 5000}).Draw(rt, "hookMaxGas"))
			if err := l2.K.SetParams(l2.Ctx, p); err != nil {
				panic(err)
			}
			c.Class("session/small-hook-allowance")
		}
		n := rapid.IntRange(0, 3).Draw(rt, "processed")
		var pend []*pendingDeposit
		for i := 0; i < n+6; i++ {
			to := tc.users[1].Str
			if rapid.IntRange(0, 3).Draw(rt, "refunded") == 0 {
				to = "not-an-l2-address"
			}
			_, p := tc.l1Deposit(tc.users[0], to, coinOf("uinit", int64(10+i)), nil)
			pend = append(pend, p)
		}
		for i := 0; i < n; i++ {
			if r := l2.Deliver(relayMsg(exec, pend[i])); !r.OK() {
				panic(r.Err)
			}
		}
		checkState, _ := l2.Ctx.CacheContext()
		checkNext := uint64(n + 1)
		var log []string
		shape := ""
		rechecked := false
		ntx := rapid.IntRange(2, 5).Draw(rt, "txs")
		for k := 0; k < ntx; k++ {
			var msgs []sdk.Msg
			txShape := ""
			nd, fresh := 0, 0
			expectNext := checkNext
			for i := rapid.IntRange(1, 3).Draw(rt, "nmsgs"); i > 0; i-- {
				switch rapid.SampledFrom([]string{"stale", "fresh", "fresh", "other"}).Draw(rt, "kind") {
				case "stale":
					if expectNext <= 1 {
						continue
					}
					msgs = append(msgs, relayMsg(exec, pend[rapid.IntRange(0, int(expectNext)-2).Draw(rt, "which")]))
					nd++
					txShape += "s"
				case "fresh":
					if int(expectNext) > len(pend) {
						continue
					}
					msgs = append(msgs, relayMsg(exec, pend[expectNext-1]))
					expectNext++
					nd++
					fresh++
					txShape += "f"
				case "other":
					msgs = append(msgs, banktypes.NewMsgSend(tc.users[0].Addr, tc.users[1].Addr, sdk.NewCoins(coinOf("stake", 1))))
					txShape += "o"
				}
			}
			mode := rapid.SampledFrom([]string{"check", "check", "recheck"}).Draw(rt, "mode")
			txCtx, write := checkState.CacheContext()
			if mode == "recheck" {
				txCtx = txCtx.WithIsReCheckTx(true)
				rechecked = true
			} else {
				txCtx = txCtx.WithIsCheckTx(true)
			}
			_, err := ante.NewRedundantBridgeDecorator(l2.K).AnteHandle(txCtx, feeTx{msgs: msgs}, false, func(ctx sdk.Context, tx sdk.Tx, sim bool) (sdk.Context, error) { return ctx, nil })
			log = append(log, fmt.Sprintf("tx %d %s %q (check state expects sequence %d) -> %v", k, mode, txShape, checkNext, err))
			if nd > 0 && fresh == 0 {
				if !errors.Is(err, opchildtypes.ErrRedundantTx) {
					rt.Fatalf("C20 violated: a transaction of only already processed deposit finalizations (relative to the check state) was not rejected as redundant (err %v)\nsession:\n%s", err, strings.Join(log, "\n"))
				}
			} else if err != nil {
				rt.Fatalf("C20 violated: a transaction with a fresh deposit finalization (or none at all) did not pass: %v\nsession:\n%s", err, strings.Join(log, "\n"))
			}
			if err == nil {
				write()
				checkNext = expectNext
			}
			shape += mode[:1] + txShape + ";"
		}
		if rechecked {
			c.Class("session/with-recheck")
			c.NonTrivial()
			c.Shape("session/" + shape)
		}
		c.Sample(func() interface{} { return map[string]interface{}{"session": log} })
		c.Done()
	})
}
