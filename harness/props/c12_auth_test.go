package props

import (
	"bytes"
	"errors"
	"fmt"
	cmtproto "github.com/cometbft/cometbft/proto/tendermint/types"
	cryptocodec "github.com/cosmos/cosmos-sdk/crypto/codec"
	"strings"
	"testing"
	"time"

	"cosmossdk.io/math"
	"github.com/cosmos/cosmos-sdk/codec"
	sdk "github.com/cosmos/cosmos-sdk/types"
	sdkerrors "github.com/cosmos/cosmos-sdk/types/errors"
	authtypes "github.com/cosmos/cosmos-sdk/x/auth/types"
	banktypes "github.com/cosmos/cosmos-sdk/x/bank/types"
	govtypes "github.com/cosmos/cosmos-sdk/x/gov/types"
	"pgregory.net/rapid"

	opchildtypes "github.com/initia-labs/OPinit/x/opchild/types"
	ophosttypes "github.com/initia-labs/OPinit/x/ophost/types"

	"verifharness/evid"
	"verifharness/henv"
)

// declaredSigner is the identity the ante handler would authenticate: the field named by
// the proto signer annotation.
func declaredSigner(cdc codec.Codec, msg sdk.Msg) string {
	signers, _, err := cdc.GetMsgV1Signers(msg)
	if err != nil || len(signers) != 1 {
		panic(fmt.Sprintf("signers of %T: %v %v", msg, signers, err))
	}
	return sdk.AccAddress(signers[0]).String()
}

func isAuthError(err error) bool {
	return errors.Is(err, sdkerrors.ErrUnauthorized) || errors.Is(err, govtypes.ErrInvalidSigner) || errors.Is(err, opchildtypes.ErrInvalidSigner)
}

// ---- L1 -------------------------------------------------------------------------------------------

// lookAlikes are strangers whose address bytes resemble a role holder's: the same leading
// bytes with more bytes behind them (module-derived accounts are 32 bytes long), one byte
// less, a zero byte more, or only the first 20 bytes of a longer address.
func lookAlikes(holders []string) []string {
	hrp := sdk.GetConfig().GetBech32AccountAddrPrefix()
	var out []string
	seen := map[string]bool{}
	for _, h := range holders {
		seen[h] = true
	}
	for _, h := range holders {
		a, err := sdk.AccAddressFromBech32(h)
		if err != nil {
			continue
		}
		var vs [][]byte
		vs = append(vs, append(append([]byte{}, a...), bytes.Repeat([]byte{0x5a}, 32-minInt(len(a), 31))...)[:maxInt(32, len(a)+1)])
		vs = append(vs, append(append([]byte{}, a...), 0))
		if len(a) > 1 {
			vs = append(vs, append([]byte{}, a[:len(a)-1]...))
		}
		if len(a) > 20 {
			vs = append(vs, append([]byte{}, a[:20]...))
		}
		for _, v := range vs {
			if s := bech(hrp, v); !seen[s] {
				seen[s] = true
				out = append(out, s)
			}
		}
	}
	return out
}

func maxInt(a, b int) int {
	if a > b {
		return a
	}
	return b
}

func TestC12L1(t *testing.T) {
	rec := evid.For("C12")
	runRapid(t, 800, 20000, func(rt *rapid.T) {
		c := rec.Begin()
		c.Class("L1")
		e := henv.NewL1(henv.L1Options{NoHook: true})
		var users []henv.User
		for i := 0; i < 5; i++ {
			users = append(users, henv.MakeUser(fmt.Sprintf("c12-%d", i)))
		}
		// one account with a 32-byte address (a module-derived account can hold a role as well)
		long := sdk.AccAddress(append(append([]byte{}, users[4].Addr...), bytes.Repeat([]byte{7}, 12)...))
		users[4] = henv.User{Addr: long, Str: long.String()}
		type bridge struct {
			id                   uint64
			proposer, challenger string
			formerP, formerC     []string
			next, prev           uint64
		}
		var bridges []*bridge
		for i := rapid.IntRange(1, 2).Draw(rt, "bridges"); i > 0; i-- {
			p, ch := users[rapid.IntRange(0, 4).Draw(rt, "p")], users[rapid.IntRange(0, 4).Draw(rt, "c")]
			r := e.Deliver(ophosttypes.NewMsgCreateBridge(p.Str, henv.DefaultBridgeConfig(p.Str, ch.Str, time.Hour)))
			if !r.OK() {
				panic(r.Err)
			}
			bridges = append(bridges, &bridge{id: r.Resp.(*ophosttypes.MsgCreateBridgeResponse).BridgeId, proposer: p.Str, challenger: ch.Str, next: 1})
		}
		var log []string
		formerAttempts := 0
		shape := ""
		repeatSteps(rt, 30, func(i int) {
			b := bridges[rapid.IntRange(0, len(bridges)-1).Draw(rt, "bridge")]
			// candidate signers: governance, every current and former holder, strangers
			cands := []string{e.Authority, b.proposer, b.challenger}
			cands = append(cands, b.formerP...)
			cands = append(cands, b.formerC...)
			for _, u := range users {
				cands = append(cands, u.Str)
			}
			lookalike := false
			if rapid.IntRange(0, 5).Draw(rt, "lookalike") == 0 {
				cands, lookalike = lookAlikes([]string{e.Authority, b.proposer, b.challenger}), true
			}
			signer := cands[rapid.IntRange(0, len(cands)-1).Draw(rt, "signer")]
			if lookalike {
				c.Class("L1/signer-resembling-a-role-holder")
			}
			other := users[rapid.IntRange(0, 4).Draw(rt, "newholder")].Str
			kind := rapid.SampledFrom([]string{"propose", "delete", "updateProposer", "updateChallenger", "updateBatchInfo", "updateMetadata", "updateOracle", "updateParams"}).Draw(rt, "msg")
			var msg sdk.Msg
			var allowed bool
			isGov, isP, isC := signer == e.Authority, signer == b.proposer, signer == b.challenger
			valid := true
			switch kind {
			case "propose":
				msg = ophosttypes.NewMsgProposeOutput(signer, b.id, b.next, b.prev+1, bytes.Repeat([]byte{byte(i)}, 32))
				allowed = isP
			case "delete":
				idx := b.next - 1
				if idx == 0 {
					idx, valid = 1, false
				}
				msg = ophosttypes.NewMsgDeleteOutput(signer, b.id, idx)
				allowed = isGov || isP || isC
			case "updateProposer":
				msg = ophosttypes.NewMsgUpdateProposer(signer, b.id, other)
				allowed = isGov || isP
			case "updateChallenger":
				msg = ophosttypes.NewMsgUpdateChallenger(signer, b.id, other)
				allowed = isGov || isC
			case "updateBatchInfo":
				msg = ophosttypes.NewMsgUpdateBatchInfo(signer, b.id, ophosttypes.BatchInfo{Submitter: other, ChainType: ophosttypes.BatchInfo_CHAIN_TYPE_CELESTIA})
				allowed = isGov || isP
			case "updateMetadata":
				msg = ophosttypes.NewMsgUpdateMetadata(signer, b.id, []byte{byte(i)})
				allowed = isGov || isP
			case "updateOracle":
				msg = ophosttypes.NewMsgUpdateOracleConfig(signer, b.id, i%2 == 0)
				allowed = isGov || isP
			case "updateParams":
				p := ophosttypes.NewParams(coinOf("uinit", int64(i+1)))
				msg = ophosttypes.NewMsgUpdateParams(signer, &p)
				allowed = isGov
			}
			if got := declaredSigner(e.Enc.Marshaler, msg); got != signer {
				rt.Fatalf("harness: declared signer %s != %s", got, signer)
			}
			former := false
			for _, f := range append(append([]string{}, b.formerP...), b.formerC...) {
				if f == signer && !isP && !isC && !isGov {
					former = true
				}
			}
			digest := e.Digest()
			if rapid.IntRange(0, 5).Draw(rt, "discard") == 0 {
				// the message runs on a branch that is thrown away (CheckTx, simulation, or a transaction whose
				// later message fails): whatever it did must not influence who holds a role
				cctx, _ := e.Ctx.CacheContext()
				saved := e.Ctx
				e.Ctx = cctx
				r := e.Deliver(msg)
				e.Ctx = saved
				log = append(log, fmt.Sprintf("[discarded branch] %s(bridge %d) by %s -> %v", kind, b.id, short(signer), r.Err))
				if r.OK() && !allowed {
					rt.Fatalf("C12 violated at step %d: %s succeeded (on a branch) for a signer that holds no allowed role\nhistory:\n%s", i, kind, strings.Join(log, "\n"))
				}
				if digest != e.Digest() {
					rt.Fatalf("C12 violated at step %d: a discarded branch changed state\nhistory:\n%s", i, strings.Join(log, "\n"))
				}
				c.Class("L1/discarded-branch")
				return
			}
			r := e.Deliver(msg)
			log = append(log, fmt.Sprintf("%s(bridge %d) by %s [gov=%v proposer=%v challenger=%v former=%v] -> %v", kind, b.id, short(signer), isGov, isP, isC, former, r.Err))
			if r.OK() && !allowed {
				rt.Fatalf("C12 violated at step %d: %s succeeded for a signer that holds no allowed role\nhistory:\n%s", i, kind, strings.Join(log, "\n"))
			}
			if !r.OK() && allowed && valid {
				rt.Fatalf("C12 violated at step %d: %s by a current role holder with valid arguments failed: %v\nhistory:\n%s", i, kind, r.Err, strings.Join(log, "\n"))
			}
			if !r.OK() && digest != e.Digest() {
				rt.Fatalf("C12 violated at step %d: rejected %s changed state\nhistory:\n%s", i, kind, strings.Join(log, "\n"))
			}
			if r.OK() {
				switch kind {
				case "propose":
					b.next++
					b.prev++
				case "delete":
					b.next--
				case "updateProposer":
					if other != b.proposer {
						b.formerP = append(b.formerP, b.proposer)
					}
					b.proposer = other
				case "updateChallenger":
					if other != b.challenger {
						b.formerC = append(b.formerC, b.challenger)
					}
					b.challenger = other
				}
				shape += kind[:3]
			}
			if former {
				formerAttempts++
				c.Class("L1/attempt-by-former-holder")
			}
			c.Class("L1/" + kind)
		})
		if formerAttempts > 0 {
			c.NonTrivial()
			c.Shape("L1:" + shape + fmt.Sprint(formerAttempts))
		}
		c.Sample(func() interface{} { return map[string]interface{}{"chain": "L1", "history": log} })
		c.Done()
	})
}

// ---- L2 -------------------------------------------------------------------------------------------

// drawExecutors draws a list of 1-3 distinct executors (in drawn order, not sorted).
func drawExecutors(rt *rapid.T, users []henv.User, label string) []string {
	n := rapid.IntRange(0, 3).Draw(rt, label+"N") // an empty list is accepted too: then nobody is an executor
	var out []string
	for len(out) < n {
		c := users[rapid.IntRange(1, 5).Draw(rt, label)].Str
		dup := false
		for _, x := range out {
			if x == c {
				dup = true
			}
		}
		if !dup {
			out = append(out, c)
		} else if len(out) > 0 {
			break
		}
	}
	return out
}

func inList(list []string, s string) bool {
	for _, x := range list {
		if x == s {
			return true
		}
	}
	return false
}

func TestC12L2(t *testing.T) {
	rec := evid.For("C12")
	runRapid(t, 800, 20000, func(rt *rapid.T) {
		c := rec.Begin()
		c.Class("L2")
		var users []henv.User
		for i := 0; i < 6; i++ {
			users = append(users, henv.MakeUser(fmt.Sprintf("c12l2-%d", i)))
		}
		admin := users[0].Str
		executors := []string{users[1].Str}
		l2 := henv.NewL2(henv.L2Options{Admin: admin, Executors: executors})
		l2.FundModule(authtypes.FeeCollectorName, coinOf("stake", 1_000_000))
		l2.FundModule(opchildtypes.ModuleName, coinOf("stake", 100000)) // the module authority can pay the authority-signed transfers
		l2.Fund(users[0].Addr, coinOf("stake", 1000))
		l2.Fund(users[4].Addr, coinOf("stake", 1000))
		authority := l2.Authority
		tightCap := rapid.IntRange(0, 2).Draw(rt, "tightCap") == 0
		if tightCap {
			// the validator set is limited to one: an executor-change plan then runs at the cap
			p, _ := l2.K.GetParams(l2.Ctx)
			p.MaxValidators = 1
			if err := l2.K.SetParams(l2.Ctx, p); err != nil {
				panic(err)
			}
			c.Class("L2/max-validators-1")
		}
		var formerExec, formerAdmin []string
		var log []string
		var info *opchildtypes.BridgeInfo
		valOps := []sdk.ValAddress{sdk.ValAddress(users[2].Addr), sdk.ValAddress(users[3].Addr), sdk.ValAddress(users[4].Addr)}
		valStored := map[int]bool{}
		nextL1 := uint64(1)
		formerAttempts, batchFailNonFirst := 0, 0
		shape := ""
		isExec := func(s string) bool {
			for _, e := range executors {
				if e == s {
					return true
				}
			}
			return false
		}
		mkParams := func(newAdmin string, newExecs []string) *opchildtypes.Params {
			p, _ := l2.K.GetParams(l2.Ctx)
			p.Admin, p.BridgeExecutors = newAdmin, newExecs
			return &p
		}
		hostSetKnown := false
		var pastPlans []func() error
		repeatSteps(rt, 30, func(i int) {
			if len(pastPlans) > 0 && rapid.IntRange(0, 9).Draw(rt, "nodeRestart") == 0 {
				// the node restarts: the in-memory plan registry starts empty and the application registers the plans
				// of its configuration again, among them plans whose height has long passed. They never run again.
				for h := range l2.K.ExecutorChangePlans {
					delete(l2.K.ExecutorChangePlans, h)
				}
				for _, reg := range pastPlans {
					if err := reg(); err != nil {
						rt.Fatalf("harness: registering a configured plan again after a restart: %v", err)
					}
				}
				if _, err := l2.EndBlock(); err != nil {
					rt.Fatalf("C12 violated at step %d: EndBlock after a restart that registered past plans again: %v\nhistory:\n%s", i, err, strings.Join(log, "\n"))
				}
				l2.NextBlock(time.Second)
				log = append(log, "node restart: past plans registered again; one more block")
				c.Class("L2/past-plans-registered-again-after-restart")
				if p, _ := l2.K.GetParams(l2.Ctx); fmt.Sprint(p.BridgeExecutors) != fmt.Sprint(executors) && !(len(p.BridgeExecutors) == 0 && len(executors) == 0) {
					rt.Fatalf("C12 violated at step %d: after a restart that registered past plans again the bridge executors are %v; the last authorized change made them %v\nhistory:\n%s", i, p.BridgeExecutors, executors, strings.Join(log, "\n"))
				}
			}
			cands := []string{authority, admin}
			cands = append(cands, executors...)
			cands = append(cands, formerExec...)
			cands = append(cands, formerAdmin...)
			for _, u := range users {
				cands = append(cands, u.Str)
			}
			if rapid.IntRange(0, 6).Draw(rt, "lookalike") == 0 {
				cands = lookAlikes(append([]string{authority, admin}, executors...))
				c.Class("L2/signer-resembling-a-role-holder")
			}
			signer := cands[rapid.IntRange(0, len(cands)-1).Draw(rt, "signer")]
			kind := rapid.SampledFrom([]string{"deposit", "setBridgeInfo", "updateOracle", "addValidator", "removeValidator", "updateParams", "spendFeePool", "execute", "execute", "plan"}).Draw(rt, "msg")
			former := false
			for _, f := range append(append([]string{}, formerExec...), formerAdmin...) {
				if f == signer && !isExec(signer) && signer != admin && signer != authority {
					former = true
				}
			}
			fail := func(f string, a ...interface{}) {
				rt.Fatalf("C12 violated at step %d: %s\nhistory:\n%s", i, fmt.Sprintf(f, a...), strings.Join(log, "\n"))
			}
			digest := l2.Digest()
			switch kind {
			case "plan":
				// role rotation through an executor-change plan executed at the end of this block
				newExecs := drawExecutors(rt, users, "pe")
				if len(newExecs) > 0 && rapid.IntRange(0, 3).Draw(rt, "planRepeatsExecutor") == 0 {
					newExecs = append(newExecs, newExecs[0]) // a list that names an account twice is a list like any other
					c.Class("L2/plan-listing-an-executor-twice")
				}
				h := uint64(l2.Ctx.BlockHeight())
				key := henv.MakeConsKey(fmt.Sprintf("c12-plan-%d", i))
				bz, _ := l2.Enc.Marshaler.MarshalInterfaceJSON(key.PubKey())
				if err := l2.K.RegisterExecutorChangePlan(uint64(i+1), h, sdk.ValAddress(users[5].Addr).String(), "m", string(bz), "", newExecs); err != nil {
					return
				}
				pastPlans = append(pastPlans, func() error {
					return l2.K.RegisterExecutorChangePlan(uint64(i+1), h, sdk.ValAddress(users[5].Addr).String(), "m", string(bz), "", newExecs)
				})
				if rapid.IntRange(0, 2).Draw(rt, "optimisticEndBlock") == 0 {
					// the end of this block is first executed on a branch that is thrown away (optimistic execution of a
					// proposal that is not the committed one), then for real
					branchL2(l2, func(b *henv.L2) { _, _ = b.EndBlock() })
					c.Class("L2/plan-height-executed-on-a-discarded-branch-first")
				}
				if _, err := l2.EndBlock(); err != nil {
					fail("EndBlock with plan: %v", err)
				}
				for _, e := range executors {
					if !inList(newExecs, e) {
						formerExec = append(formerExec, e)
					}
				}
				executors = newExecs
				valStored = map[int]bool{}
				if p, _ := l2.K.GetParams(l2.Ctx); fmt.Sprint(p.BridgeExecutors) != fmt.Sprint(executors) && !(len(p.BridgeExecutors) == 0 && len(executors) == 0) {
					fail("the plan of this height names the executors %v; after the block the bridge executors are %v", executors, p.BridgeExecutors)
				}
				l2.NextBlock(time.Second)
				log = append(log, fmt.Sprintf("executor-change plan -> executors %v", executors))
				return
			case "deposit":
				dseq := nextL1
				if nextL1 > 1 && rapid.IntRange(0, 2).Draw(rt, "staleseq") == 0 {
					dseq = uint64(rapid.IntRange(1, int(nextL1-1)).Draw(rt, "dseq")) // an already processed sequence
				}
				msg := opchildtypes.NewMsgFinalizeTokenDeposit(signer, "l1from", users[5].Str, coinOf("l2/aa", 5), dseq, 3, "uinit", nil)
				r := l2.Deliver(msg)
				log = append(log, fmt.Sprintf("deposit(seq %d, next %d) by %s [executor=%v former=%v] -> %v", dseq, nextL1, short(signer), isExec(signer), former, r.Err))
				if r.OK() && dseq < nextL1 {
					// a no-op answer is a success of the message too: it needs the role all the same
					if !isExec(signer) {
						fail("deposit finalization of an already processed sequence succeeded for %s, which is not a bridge executor", signer)
					}
					break
				}
				if r.OK() != isExec(signer) {
					fail("deposit finalization by %s (executor=%v): ok=%v err=%v", signer, isExec(signer), r.OK(), r.Err)
				}
				if r.OK() {
					nextL1++
				}
			case "setBridgeInfo":
				cfg := henv.DefaultBridgeConfig(users[1].Str, users[2].Str, time.Hour)
				cfg.OracleEnabled = rapid.Bool().Draw(rt, "oe")
				ni := opchildtypes.BridgeInfo{BridgeId: 7, BridgeAddr: "bridge-7", L1ChainId: "l1", L1ClientId: "", BridgeConfig: cfg}
				if info != nil {
					ni.L1ClientId = info.L1ClientId
				}
				repoint := "none"
				if info != nil {
					repoint = rapid.SampledFrom([]string{"none", "none", "id", "addr", "chain", "client", "client-empty"}).Draw(rt, "repoint")
				}
				switch repoint {
				case "id":
					ni.BridgeId = 8
				case "addr":
					ni.BridgeAddr = "bridge-8"
				case "chain":
					ni.L1ChainId = "l1-other"
				case "client":
					ni.L1ClientId = ni.L1ClientId + "x"
				case "client-empty":
					ni.L1ClientId = ""
				}
				if repoint == "none" && rapid.Bool().Draw(rt, "setclient") && ni.L1ClientId == "" {
					ni.L1ClientId = "07-tendermint-1"
				}
				r := l2.Deliver(opchildtypes.NewMsgSetBridgeInfo(signer, ni))
				log = append(log, fmt.Sprintf("setBridgeInfo(repoint=%s client=%q) by %s [executor=%v] -> %v", repoint, ni.L1ClientId, short(signer), isExec(signer), r.Err))
				want := isExec(signer)
				if info != nil {
					if ni.BridgeId != info.BridgeId || ni.BridgeAddr != info.BridgeAddr || ni.L1ChainId != info.L1ChainId {
						want = false
					}
					if info.L1ClientId != "" && ni.L1ClientId != info.L1ClientId {
						want = false
					}
				}
				if r.OK() != want {
					fail("setBridgeInfo(repoint=%s) by %s (executor=%v): ok=%v want %v err=%v", repoint, signer, isExec(signer), r.OK(), want, r.Err)
				}
				if r.OK() {
					cp := ni
					info = &cp
					if !hostSetKnown && ni.L1ClientId != "" {
						// the light client of L1 reports its validator set (known as of L1 height 9)
						k := henv.MakeConsKey("c12-host-validator")
						pk, _ := cryptocodec.ToCmtProtoPublicKey(k.PubKey())
						if err := l2.K.UpdateHostValidatorSet(l2.Ctx, ni.L1ClientId, 9, &cmtproto.ValidatorSet{Validators: []*cmtproto.Validator{{Address: k.PubKey().Address(), PubKey: pk, VotingPower: 10}}}); err == nil {
							hostSetKnown = true
							c.Class("L2/l1-validator-set-known")
						}
					}
				}
				// the binding can never be re-pointed
				if info != nil {
					got, err := l2.K.BridgeInfo.Get(l2.Ctx)
					if err != nil || got.BridgeId != info.BridgeId || got.BridgeAddr != info.BridgeAddr || got.L1ChainId != info.L1ChainId || got.L1ClientId != info.L1ClientId {
						fail("bridge binding changed to %+v", got)
					}
				}
			case "updateOracle":
				// (for L1 heights below, at and above the one the validator set is known for)
				oh := rapid.SampledFrom([]uint64{5, 5, 3, 9, 10, 1 << 40}).Draw(rt, "oracleHeight")
				r := l2.Deliver(opchildtypes.NewMsgUpdateOracle(signer, oh, []byte{1, 2, 3}))
				log = append(log, fmt.Sprintf("updateOracle(height %d) by %s [executor=%v] -> %v", oh, short(signer), isExec(signer), r.Err))
				if r.OK() {
					fail("oracle update with garbage data succeeded")
				}
				if isExec(signer) == errors.Is(r.Err, sdkerrors.ErrUnauthorized) {
					fail("oracle update by %s (executor=%v) failed with %v", signer, isExec(signer), r.Err)
				}
			case "addValidator", "removeValidator", "updateParams", "spendFeePool":
				var msg sdk.Msg
				valid := true
				vi := rapid.IntRange(0, 2).Draw(rt, "val")
				switch kind {
				case "addValidator":
					m, _ := opchildtypes.NewMsgAddValidator("m", signer, valOps[vi].String(), henv.MakeConsKey(fmt.Sprintf("c12v%d", vi)).PubKey())
					msg, valid = m, !valStored[vi] && !tightCap // at the cap only "a stranger cannot" is asserted
				case "removeValidator":
					m, _ := opchildtypes.NewMsgRemoveValidator(signer, valOps[vi].String())
					msg, valid = m, valStored[vi]
				case "updateParams":
					msg = opchildtypes.NewMsgUpdateParams(signer, mkParams(admin, executors))
				case "spendFeePool":
					msg = opchildtypes.NewMsgSpendFeePool(sdk.MustAccAddressFromBech32(signer), users[5].Addr, sdk.NewCoins(coinOf("stake", 1)))
				}
				r := l2.Deliver(msg)
				log = append(log, fmt.Sprintf("%s by %s [authority=%v] -> %v", kind, short(signer), signer == authority, r.Err))
				if r.OK() && signer != authority {
					fail("%s succeeded for %s, which is not the module authority", kind, signer)
				}
				if !r.OK() && signer == authority && valid {
					fail("%s by the module authority failed: %v", kind, r.Err)
				}
				if r.OK() {
					switch kind {
					case "addValidator":
						valStored[vi] = true
					case "removeValidator":
						// removed at the end of the block; close the block so that the record is gone
						if _, err := l2.EndBlock(); err != nil {
							fail("EndBlock: %v", err)
						}
						l2.NextBlock(time.Second)
						valStored[vi] = false
					}
				}
			case "execute":
				// batched execution: 1-3 inner messages with drawn signers, possibly a failing one
				n := rapid.IntRange(1, 3).Draw(rt, "ninner")
				var inner []sdk.Msg
				allAuthority, allValid := true, true
				failPos := -1
				newAdmin, newExecs := admin, executors
				rotated := false
				var desc []string
				for k := 0; k < n; k++ {
					switch rapid.SampledFrom([]string{"params", "params-rotate", "spend", "spend-too-much", "send-by-admin", "send-by-other", "remove-unknown", "send-by-authority", "send-by-authority", "withdraw-by-user", "deposit-by-executor", "oracle-by-authority", "deposit-by-authority", "nested-batch-by-stranger", "nested-batch-by-authority", "unroutable-by-authority"}).Draw(rt, "inner") {
					case "unroutable-by-authority":
						// a message type the codec knows and the authority signs, for which this chain has no handler
						inner = append(inner, &authtypes.MsgUpdateParams{Authority: authority, Params: authtypes.DefaultParams()})
						allValid = false
						if failPos < 0 {
							failPos = k
						}
						desc = append(desc, "unroutable-by-authority")
					case "oracle-by-authority":
						// signed by the module authority, as the batch demands - but the authority is not a bridge executor
						inner = append(inner, opchildtypes.NewMsgUpdateOracle(authority, 5, []byte{1}))
						allValid = false
						if failPos < 0 {
							failPos = k
						}
						desc = append(desc, "oracle-by-authority")
					case "deposit-by-authority":
						inner = append(inner, opchildtypes.NewMsgFinalizeTokenDeposit(authority, users[0].Str, users[5].Str, coinOf("l2/minted-by-admin", 1000), nextL1, 1, "uinit", nil))
						allValid = false
						if failPos < 0 {
							failPos = k
						}
						desc = append(desc, "deposit-by-authority")
					case "nested-batch-by-stranger":
						// a batch inside the batch whose sender is neither the authority nor the admin
						nb, _ := opchildtypes.NewMsgExecuteMessages(users[4].Str, []sdk.Msg{banktypes.NewMsgSend(sdk.MustAccAddressFromBech32(authority), users[5].Addr, sdk.NewCoins(coinOf("stake", 1)))})
						inner = append(inner, nb)
						allAuthority = false
						desc = append(desc, "nested-batch-by-stranger")
					case "nested-batch-by-authority":
						// a batch inside the batch, sent by the authority - which is not the admin
						nb, _ := opchildtypes.NewMsgExecuteMessages(authority, []sdk.Msg{banktypes.NewMsgSend(sdk.MustAccAddressFromBech32(authority), users[5].Addr, sdk.NewCoins(coinOf("stake", 1)))})
						inner = append(inner, nb)
						allValid = false
						if failPos < 0 {
							failPos = k
						}
						desc = append(desc, "nested-batch-by-authority")
					case "withdraw-by-user":
						// a message of this module whose signer is a user: the admin must not be able to act in their name
						inner = append(inner, opchildtypes.NewMsgInitiateTokenWithdrawal(users[4].Str, users[5].Str, coinOf("stake", 1)))
						allAuthority = false
						desc = append(desc, "withdraw-by-user")
					case "deposit-by-executor":
						// a message of this module whose signer is a bridge executor
						depositSigner := users[1].Str
						if len(executors) > 0 {
							depositSigner = executors[0]
						}
						inner = append(inner, opchildtypes.NewMsgFinalizeTokenDeposit(depositSigner, users[0].Str, users[5].Str, coinOf("l2/minted-by-admin", 1000), nextL1, 1, "uinit", nil))
						allAuthority = false
						desc = append(desc, "deposit-by-executor")
					case "params":
						inner = append(inner, opchildtypes.NewMsgUpdateParams(authority, mkParams(newAdmin, newExecs)))
						desc = append(desc, "params")
					case "params-rotate":
						newAdmin = users[rapid.IntRange(0, 5).Draw(rt, "na")].Str
						newExecs = drawExecutors(rt, users, "ne")
						inner = append(inner, opchildtypes.NewMsgUpdateParams(authority, mkParams(newAdmin, newExecs)))
						rotated = true
						desc = append(desc, "params-rotate")
					case "spend":
						inner = append(inner, opchildtypes.NewMsgSpendFeePool(sdk.MustAccAddressFromBech32(authority), users[5].Addr, sdk.NewCoins(coinOf("stake", 1))))
						desc = append(desc, "spend")
					case "spend-too-much":
						inner = append(inner, opchildtypes.NewMsgSpendFeePool(sdk.MustAccAddressFromBech32(authority), users[5].Addr, sdk.NewCoins(sdk.NewCoin("stake", math.NewInt(1<<60)))))
						allValid = false
						if failPos < 0 {
							failPos = k
						}
						desc = append(desc, "spend-too-much")
					case "send-by-authority":
						inner = append(inner, banktypes.NewMsgSend(sdk.MustAccAddressFromBech32(authority), users[5].Addr, sdk.NewCoins(coinOf("stake", 1))))
						desc = append(desc, "send-by-authority")
					case "send-by-admin":
						inner = append(inner, banktypes.NewMsgSend(sdk.MustAccAddressFromBech32(admin), users[5].Addr, sdk.NewCoins(coinOf("stake", 1))))
						allAuthority = false
						desc = append(desc, "send-by-admin")
					case "send-by-other":
						inner = append(inner, banktypes.NewMsgSend(users[4].Addr, users[5].Addr, sdk.NewCoins(coinOf("stake", 1))))
						allAuthority = false
						desc = append(desc, "send-by-other")
					case "remove-unknown":
						m, _ := opchildtypes.NewMsgRemoveValidator(authority, sdk.ValAddress(henv.MakeUser("c12-nobody").Addr).String())
						inner = append(inner, m)
						allValid = false
						if failPos < 0 {
							failPos = k
						}
						desc = append(desc, "remove-unknown")
					}
				}
				msg, err := opchildtypes.NewMsgExecuteMessages(signer, inner)
				if err != nil {
					panic(err)
				}
				if signer == admin && allAuthority && allValid && n >= 2 && rapid.IntRange(0, 2).Draw(rt, "abort") == 0 {
					// the same batch run by a caller under a gas limit that is used up after the first inner message:
					// the batch is aborted (out of gas is a panic) and must leave nothing in the context it ran on
					first, _ := opchildtypes.NewMsgExecuteMessages(signer, inner[:1])
					var g1, gN uint64
					branchL2(l2, func(b *henv.L2) { g1 = b.HandleInPlace(first, 50_000_000).Gas })
					branchL2(l2, func(b *henv.L2) { gN = b.HandleInPlace(msg, 50_000_000).Gas })
					if g1+1 < gN {
						limit := uint64(rapid.Uint64Range(g1, gN-1).Draw(rt, "gaslimit"))
						branchL2(l2, func(b *henv.L2) {
							pre := b.Digest()
							r := b.HandleInPlace(msg, limit)
							if r.OK() {
								return
							}
							c.Class("L2/batch-aborted-by-gas-after-its-first-message")
							if d := b.Digest(); d != pre {
								fail("batched execution %v aborted (%v) under gas limit %d (first message alone needs %d, all need %d) left writes of its earlier messages in the context it ran on", desc, r.Err, limit, g1, gN)
							}
						})
					}
				}
				paidBefore := l2.Balance(users[5].Addr, "stake")
				r := l2.Deliver(msg)
				log = append(log, fmt.Sprintf("execute%v by %s [admin=%v former=%v] -> %v", desc, short(signer), signer == admin, former, r.Err))
				if r.OK() {
					// all of it: every carried payment (fee-pool spend, transfer by the authority) has arrived
					pays := 0
					for _, d := range desc {
						if d == "spend" || d == "send-by-authority" {
							pays++
						}
					}
					if got := l2.Balance(users[5].Addr, "stake").Sub(paidBefore); !got.Equal(math.NewInt(int64(pays))) {
						fail("batched execution %v reported success; its %d payments of 1stake delivered %s: the batch is neither all nor nothing", desc, pays, got)
					}
				}
				want := signer == admin && allAuthority && allValid
				if r.OK() != want {
					fail("batched execution %v by %s: ok=%v, statement says %v (admin=%v, all inner signed by authority=%v, all inner valid=%v): %v", desc, signer, r.OK(), want, signer == admin, allAuthority, allValid, r.Err)
				}
				if r.OK() && rotated {
					if newAdmin != admin {
						formerAdmin = append(formerAdmin, admin)
					}
					for _, e := range executors {
						if !inList(newExecs, e) {
							formerExec = append(formerExec, e)
						}
					}
					admin, executors = newAdmin, newExecs
				}
				if signer == admin && failPos > 0 {
					batchFailNonFirst++
					c.Class("L2/batch-with-failing-non-first-message")
				}
			}
			if former {
				formerAttempts++
				c.Class("L2/attempt-by-former-holder")
			}
			c.Class("L2/" + kind)
			shape += kind[:2]
			// a rejected message changes nothing (the last delivered message of this step)
			if len(log) > 0 && strings.HasSuffix(log[len(log)-1], "-> <nil>") == false && kind != "removeValidator" && kind != "plan" {
				if digest != l2.Digest() {
					fail("rejected %s changed state", kind)
				}
			}
		})
		if formerAttempts > 0 || batchFailNonFirst > 0 {
			c.NonTrivial()
			c.Shape("L2:" + shape + fmt.Sprint(formerAttempts, batchFailNonFirst))
		}
		c.Sample(func() interface{} { return map[string]interface{}{"chain": "L2", "history": log} })
		c.Done()
	})
}

var _ = isAuthError
