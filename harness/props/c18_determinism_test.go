package props

import (
	"bytes"
	"cosmossdk.io/math"
	"crypto/sha256"
	"encoding/json"
	"fmt"
	"math/big"
	"os"
	"path/filepath"
	"strings"
	"sync"
	"testing"
	"time"

	cometabci "github.com/cometbft/cometbft/abci/types"
	cmtproto "github.com/cometbft/cometbft/proto/tendermint/types"
	cryptocodec "github.com/cosmos/cosmos-sdk/crypto/codec"
	cryptotypes "github.com/cosmos/cosmos-sdk/crypto/types"
	sdk "github.com/cosmos/cosmos-sdk/types"
	banktypes "github.com/cosmos/cosmos-sdk/x/bank/types"
	"pgregory.net/rapid"

	"github.com/skip-mev/connect/v2/abci/strategies/currencypair"
	vetypes "github.com/skip-mev/connect/v2/abci/ve/types"
	connecttypes "github.com/skip-mev/connect/v2/pkg/types"
	oracletypes "github.com/skip-mev/connect/v2/x/oracle/types"

	opchildtypes "github.com/initia-labs/OPinit/x/opchild/types"
	ophosttypes "github.com/initia-labs/OPinit/x/ophost/types"

	"verifharness/evid"
	"verifharness/henv"
)

// A C18 history is a script of state-independent operation descriptors. Arguments that
// depend on the chain (next index, current sequence, account numbers) are resolved by the
// interpreter from the instance's own state, deterministically. The same script is executed on
// three fresh instances; everything observable must be byte-identical.

type c18Op struct {
	Kind string
	A, B int
	C    int64
	S    string
}

func (o c18Op) String() string { return fmt.Sprintf("%s(%d,%d,%d,%s)", o.Kind, o.A, o.B, o.C, o.S) }

func dumpString(kvs []henv.KV) string {
	var sb strings.Builder
	for _, kv := range kvs {
		fmt.Fprintf(&sb, "%s/%x=%x\n", kv.Store, kv.Key, kv.Value)
	}
	return sb.String()
}

// ---- L1 interpreter ----------------------------------------------------------------------------------

func runL1Script(script []c18Op) (trace string, bridges int) {
	var sb strings.Builder
	e := henv.NewL1(henv.L1Options{})
	var users []henv.User
	denoms := []string{"uinit", "uusdc"}
	for i := 0; i < 4; i++ {
		u := henv.MakeUser(fmt.Sprintf("c18-l1-%d", i))
		users = append(users, u)
		e.Fund(u.Addr, coinOf("uinit", 1_000_000_000), coinOf("uusdc", 1_000_000_000))
	}
	for i := 0; i < 3; i++ {
		e.Chan.Set(e.Ctx, "transfer", fmt.Sprintf("channel-%d", i), 1)
	}
	e.Chan.Set(e.Ctx, "transfer", "channel-8", 5) // a channel that has carried packets already
	type out struct {
		o *mOutput
	}
	type br struct {
		id       uint64
		prop     string
		chal     string
		outs     []*mOutput
		wdSeq    uint64
		period   time.Duration
		deposits int
	}
	var brs []*br
	emit := func(op c18Op, r henv.Result) {
		fmt.Fprintf(&sb, "%s => %s\n", op, renderResult(r))
	}
	for _, op := range script {
		if c18Noise && (op.A*7+op.B*3+int(op.C))%2 == 0 {
			// uncommitted work between the committed messages (CheckTx, simulations, transactions that fail
			// later): executed on a branch that is thrown away, not part of the trace
			cctx, _ := e.Ctx.CacheContext()
			saved := e.Ctx
			e.Ctx = cctx
			r := e.Deliver(ophosttypes.NewMsgCreateBridge(users[op.A%4].Str, henv.DefaultBridgeConfig(users[op.A%4].Str, users[op.B%4].Str, time.Second)))
			if r.OK() {
				id := r.Resp.(*ophosttypes.MsgCreateBridgeResponse).BridgeId
				e.Deliver(ophosttypes.NewMsgInitiateTokenDeposit(users[op.B%4].Str, id, "noise", coinOf(denoms[op.A%2], 3), nil))
				e.Deliver(ophosttypes.NewMsgProposeOutput(users[op.A%4].Str, id, 1, 1, bytes.Repeat([]byte{9}, 32)))
			}
			e.Deliver(ophosttypes.NewMsgInitiateTokenDeposit(users[op.B%4].Str, 1, "noise", coinOf("unoise", 0), nil))
			e.Ctx = saved
		}
		switch op.Kind {
		case "create":
			p, ch := users[op.A%4], users[op.B%4]
			period := []time.Duration{time.Second, 10 * time.Second, time.Minute}[op.C%3]
			cfg := henv.DefaultBridgeConfig(p.Str, ch.Str, period)
			if op.S == "channels" {
				cfg.Metadata = []byte(fmt.Sprintf(`{"perm_channels":[{"port_id":"transfer","channel_id":"channel-%d"}]}`, len(brs)%3))
			}
			if op.S == "channels-many" {
				// several channels in one list: free ones, ones another bridge has taken, one that does not exist and
				// one that has already carried packets - when more than one cannot be taken, which refusal the
				// creator gets is part of the result
				names := []string{"channel-0", "channel-1", "channel-2", "channel-7", "channel-8"}
				var items []string
				for k := 0; k < 2+op.A%3; k++ {
					items = append(items, fmt.Sprintf(`{"port_id":"transfer","channel_id":"%s"}`, names[(op.A*(k+1)+op.B+k*int(op.C))%5]))
				}
				cfg.Metadata = []byte(`{"perm_channels":[` + strings.Join(items, ",") + `]}`)
			}
			r := e.Deliver(ophosttypes.NewMsgCreateBridge(p.Str, cfg))
			emit(op, r)
			if r.OK() {
				brs = append(brs, &br{id: r.Resp.(*ophosttypes.MsgCreateBridgeResponse).BridgeId, prop: p.Str, chal: ch.Str, wdSeq: 1, period: period})
			}
		case "deposit":
			id := uint64(op.A%5 + 1)
			r := e.Deliver(ophosttypes.NewMsgInitiateTokenDeposit(users[op.B%4].Str, id, op.S, coinOf(denoms[op.A%2], op.C), []byte(op.S)))
			emit(op, r)
			if r.OK() {
				for _, b := range brs {
					if b.id == id {
						b.deposits++
					}
				}
			}
		case "advance":
			e.Advance(time.Duration(op.C) * time.Second)
			fmt.Fprintf(&sb, "%s => now %d\n", op, e.Ctx.BlockTime().UnixNano())
		default:
			if len(brs) == 0 {
				continue
			}
			b := brs[op.A%len(brs)]
			switch op.Kind {
			case "propose":
				n := op.B%5 + 1
				var ts []wd
				for i := 0; i < n; i++ {
					ts = append(ts, wd{Bridge: b.id, Seq: b.wdSeq, From: "l2", To: users[(op.B+i)%4].Str, Denom: denoms[i%2], Amount: uint64(op.C%50 + 1)})
					b.wdSeq++
				}
				o := buildOutput(ts, 0, ref32(byte(op.C)))
				idx := uint64(len(b.outs) + 1)
				r := e.Deliver(ophosttypes.NewMsgProposeOutput(b.prop, b.id, idx, idx*10, o.Root[:]))
				emit(op, r)
				if r.OK() {
					o.Index = idx
					b.outs = append(b.outs, o)
				}
			case "delete":
				if len(b.outs) == 0 {
					continue
				}
				idx := len(b.outs) - op.B%len(b.outs)
				r := e.Deliver(ophosttypes.NewMsgDeleteOutput(b.chal, b.id, uint64(idx)))
				emit(op, r)
				if r.OK() {
					b.outs = b.outs[:idx-1]
				}
			case "claim":
				if len(b.outs) == 0 {
					continue
				}
				o := b.outs[op.B%len(b.outs)]
				pos := int(op.C) % len(o.Tuples)
				emit(op, e.Deliver(claimMsg(users[op.B%4].Str, o.Tuples[pos], o, o.Index, pos)))
			case "role":
				nu := users[op.B%4].Str
				var m sdk.Msg
				switch op.C % 5 {
				case 0:
					m = ophosttypes.NewMsgUpdateProposer(b.prop, b.id, nu)
				case 1:
					m = ophosttypes.NewMsgUpdateChallenger(b.chal, b.id, nu)
				case 2:
					// chain types 2 (celestia), 1, and the undefined 0 and 7 (refused - with the same error everywhere)
					m = ophosttypes.NewMsgUpdateBatchInfo(b.prop, b.id, ophosttypes.BatchInfo{Submitter: nu, ChainType: ophosttypes.BatchInfo_ChainType([]int32{2, 2, 1, 0, 7}[op.A%5])})
				case 3:
					m = ophosttypes.NewMsgUpdateMetadata(b.prop, b.id, []byte(op.S))
				case 4:
					m = ophosttypes.NewMsgUpdateOracleConfig(b.prop, b.id, op.B%2 == 0)
				}
				r := e.Deliver(m)
				emit(op, r)
				if r.OK() {
					switch op.C % 5 {
					case 0:
						b.prop = nu
					case 1:
						b.chal = nu
					}
				}
			}
		}
	}
	gs := e.K.ExportGenesis(e.Ctx)
	fmt.Fprintf(&sb, "EXPORT %s\n", e.Enc.Marshaler.MustMarshalJSON(gs))
	// a fresh node started from that genesis
	n := importL1(e, gs)
	fmt.Fprintf(&sb, "REIMPORT-EXPORT %s\n", n.Enc.Marshaler.MustMarshalJSON(n.K.ExportGenesis(n.Ctx)))
	fmt.Fprintf(&sb, "REIMPORT-DUMP\n%s", dumpString(n.Dump()))
	fmt.Fprintf(&sb, "DUMP\n%s", dumpString(e.Dump()))
	return sb.String(), len(gs.Bridges)
}

func genL1Script(rt *rapid.T) []c18Op {
	var s []c18Op
	s = append(s, c18Op{Kind: "create", A: rapid.IntRange(0, 3).Draw(rt, "p"), B: rapid.IntRange(0, 3).Draw(rt, "c"), C: 0, S: "channels"})
	n := rapid.IntRange(15, 50).Draw(rt, "len")
	for i := 0; i < n; i++ {
		k := drawWeighted(rt, "op", []weighted{{"deposit", 5}, {"propose", 5}, {"claim", 5}, {"advance", 4}, {"create", 2}, {"delete", 2}, {"role", 3}})
		op := c18Op{Kind: k, A: rapid.IntRange(0, 7).Draw(rt, "a"), B: rapid.IntRange(0, 7).Draw(rt, "b"), C: int64(rapid.IntRange(0, 100).Draw(rt, "c"))}
		switch k {
		case "deposit":
			op.S = rapid.SampledFrom([]string{"cosmos1xyz", "l2-recipient", "日本"}).Draw(rt, "s")
		case "role":
			op.S = rapid.SampledFrom([]string{"", `{"perm_channels":[]}`, "md"}).Draw(rt, "s")
		case "create":
			op.S = rapid.SampledFrom([]string{"", "channels", "channels-many", "channels-many"}).Draw(rt, "s")
		case "advance":
			op.C = int64(rapid.SampledFrom([]int{0, 1, 9, 10, 61, 3600}).Draw(rt, "dt"))
		}
		s = append(s, op)
	}
	return s
}

// ---- L2 interpreter ----------------------------------------------------------------------------------

var c18Pairs = []string{"BTC/USD", "ETH/USD", "ATOM/USD", "INIT/USD", c15TsPair}

func runL2Script(script []c18Op) (trace string, maxLeaving int, oracleUpdates int) {
	var sb strings.Builder
	admin, exec := henv.MakeUser("c18-admin"), henv.MakeUser("c18-exec")
	l2 := henv.NewL2(henv.L2Options{Admin: admin.Str, Executors: []string{exec.Str}})
	var users []henv.User
	for i := 0; i < 4; i++ {
		u := henv.MakeUser(fmt.Sprintf("c18-l2-%d", i))
		users = append(users, u)
		l2.Fund(u.Addr, coinOf("stake", 1000))
	}
	var ops []sdk.ValAddress
	for i := 0; i < 6; i++ {
		ops = append(ops, sdk.ValAddress(henv.MakeUser(fmt.Sprintf("c18-op-%d", i)).Addr))
	}
	key := func(i int) cryptotypes.PubKey { return henv.MakeConsKey(fmt.Sprintf("c18-k%d", i)).PubKey() }
	// genesis with three validators
	gs := opchildtypes.DefaultGenesisState()
	gs.Params.Admin, gs.Params.BridgeExecutors, gs.Params.MaxValidators, gs.Params.HistoricalEntries = admin.Str, []string{exec.Str}, 6, 3
	for i := 0; i < 3; i++ {
		v, _ := opchildtypes.NewValidator(ops[i], key(i), fmt.Sprintf("g%d", i))
		gs.Validators = append(gs.Validators, v)
	}
	fmt.Fprintf(&sb, "GENESIS => [%s]\n", renderUpdates(l2.K.InitGenesis(l2.Ctx, gs)))
	cfg := henv.DefaultBridgeConfig(users[0].Str, users[1].Str, time.Hour)
	cfg.OracleEnabled = true
	// gas is part of a transaction's result (and of the block's results hash): it belongs to the trace
	emit := func(op fmt.Stringer, r henv.Result) {
		fmt.Fprintf(&sb, "%s => %s gas=%d\n", op, renderResult(r), r.Gas)
	}
	emit(c18Op{Kind: "bridgeinfo"}, l2.Deliver(opchildtypes.NewMsgSetBridgeInfo(exec.Str, opchildtypes.BridgeInfo{BridgeId: 1, BridgeAddr: "b1", L1ChainId: c15ChainID, L1ClientId: c15ClientID, BridgeConfig: cfg})))
	l2.OK.InitGenesis(l2.Ctx, oracletypes.GenesisState{CurrencyPairGenesis: []oracletypes.CurrencyPairGenesis{}})
	for _, p := range c18Pairs {
		cp, _ := connecttypes.CurrencyPairFromString(p)
		if err := l2.OK.CreateCurrencyPair(l2.Ctx, cp); err != nil {
			panic(err)
		}
	}
	// L1 validator snapshot for the oracle
	var hostVals []c15Val
	set := &cmtproto.ValidatorSet{}
	for i := 0; i < 4; i++ {
		k := henv.MakeConsKey(fmt.Sprintf("c18-host-%d", i))
		hostVals = append(hostVals, c15Val{priv: k, power: int64(10 + i), addr: k.PubKey().Address()})
		pk, _ := cryptocodec.ToCmtProtoPublicKey(k.PubKey())
		set.Validators = append(set.Validators, &cmtproto.Validator{Address: k.PubKey().Address(), PubKey: pk, VotingPower: int64(10 + i)})
	}
	if err := l2.K.UpdateHostValidatorSet(l2.Ctx, c15ClientID, 5, set); err != nil {
		panic(err)
	}
	hostHeight, hostGen := int64(5), 0
	curSet := set
	heldTs := int64(0)
	var held sdk.Msg // an oracle update that sits in the mempool and is delivered later (or never)
	// L1 timestamps of 2023 or of 2100, chosen by the script
	ts := int64(1_700_000_000_000_000_000)
	if len(script) > 0 && script[0].A%2 == 1 {
		ts = 4_102_444_800_000_000_000
	}
	maxApplied := int64(0) // highest L1 timestamp of an applied oracle update
	denoms := []string{"l2/aa", "l2/bb"}
	bases := []string{"uinit", "uusdc"}
	if err := l2.BeginBlock(); err != nil {
		fmt.Fprintf(&sb, "BEGIN err %v\n", err)
	}
	planN := 0
	endBlock := func() {
		before, _, _ := l2.StateValidators()
		updates, err := l2.EndBlock()
		fmt.Fprintf(&sb, "ENDBLOCK h=%d => [%s] err=%v\n", l2.Ctx.BlockHeight(), renderUpdates(updates), err)
		after, _, _ := l2.StateValidators()
		leaving := 0
		for k := range before {
			if _, ok := after[k]; !ok {
				leaving++
			}
		}
		zero := 0
		for _, u := range updates {
			if u.Power == 0 {
				zero++
			}
		}
		if zero > maxLeaving {
			maxLeaving = zero
		}
		_ = leaving
		l2.NextBlock(5 * time.Second)
		if err := l2.BeginBlock(); err != nil {
			fmt.Fprintf(&sb, "BEGIN err %v\n", err)
		}
	}
	for _, op := range script {
		if c18Noise && (op.A*7+op.B*3+int(op.C))%2 == 0 {
			// uncommitted work between the committed messages (what the node's mempool checked, simulated, or
			// executed in a transaction that failed later): runs on a branch that is thrown away
			branchL2(l2, func(b *henv.L2) {
				seq, _ := b.K.GetNextL1Sequence(b.Ctx)
				b.Deliver(opchildtypes.NewMsgFinalizeTokenDeposit(exec.Str, users[0].Str, "bad-recipient", coinOf(denoms[op.A%2], 5), seq, 7, "unoise", nil))
				b.Deliver(opchildtypes.NewMsgFinalizeTokenDeposit(exec.Str, users[0].Str, users[op.A%4].Str, coinOf(denoms[op.A%2], 5), seq+1, 7, "unoise", []byte{0x0a, 0x01, 0x00})) // ... and one that carries hook data
				b.Q.BaseDenom(b.Ctx, &opchildtypes.QueryBaseDenomRequest{Denom: denoms[op.A%2]})
				b.Deliver(opchildtypes.NewMsgInitiateTokenWithdrawal(users[op.A%4].Str, "noise", coinOf(denoms[op.A%2], 1)))
				m, _ := opchildtypes.NewMsgAddValidator("noise", b.Authority, ops[op.B%6].String(), key(op.A%6))
				b.Deliver(m)
				if held != nil {
					b.Deliver(held) // the mempool checks (simulates) the waiting oracle update again
				}
				// a light-client update of L1 seen in a transaction that does not make it into the block
				_ = b.K.UpdateHostValidatorSet(b.Ctx, c15ClientID, hostHeight+1, curSet)
				// the rest of the block executed ahead of time (optimistic execution, a proposal that is not
				// the one that gets committed): end of block on the branch
				_, _ = b.EndBlock()
				// ... and the beginning of the next block
				b.NextBlock(5 * time.Second)
				_ = b.BeginBlock()
			})
		}
		switch op.Kind {
		case "block":
			endBlock()
		case "add":
			m, _ := opchildtypes.NewMsgAddValidator("m", l2.Authority, ops[op.A%6].String(), key(op.B%6))
			emit(op, l2.Deliver(m))
		case "remove":
			pos, _, _ := l2.StateValidators()
			if len(pos) <= 1 {
				continue
			}
			m, _ := opchildtypes.NewMsgRemoveValidator(l2.Authority, ops[op.A%6].String())
			emit(op, l2.Deliver(m))
		case "plan":
			// one to three plans, as an application registers its whole list of plans at start-up: for the current
			// height and for heights that have passed already (C > 500: also the next height)
			offsets := [][]int64{{0}, {0}, {-1, 0}, {-2, -1, 0}, {-1}, {-2, 0}}[op.B%6]
			if op.C > 500 {
				offsets = append(offsets, 1)
			}
			for _, off := range offsets {
				h := l2.Ctx.BlockHeight() + off
				if h < 1 {
					continue
				}
				planN++
				bz, _ := l2.Enc.Marshaler.MarshalInterfaceJSON(key(100 + planN))
				// fresh operator and key: outside the recorded findings of C14
				err := l2.K.RegisterExecutorChangePlan(uint64(planN), uint64(h), sdk.ValAddress(henv.MakeUser(fmt.Sprintf("c18-planop-%d", planN)).Addr).String(), "plan", string(bz), "", []string{exec.Str, users[(op.A+planN)%4].Str})
				fmt.Fprintf(&sb, "%s height%+d => %v\n", op, off, err)
			}
		case "params":
			// a parameter update whose address lists contain repeats (accepted as they are)
			p, _ := l2.K.GetParams(l2.Ctx)
			p.BridgeExecutors = []string{exec.Str, users[op.A%4].Str, users[(op.A+1)%4].Str, exec.Str, users[(op.A+2)%4].Str, users[op.A%4].Str}
			p.FeeWhitelist = []string{users[op.B%4].Str, users[(op.B+1)%4].Str, users[op.B%4].Str, users[(op.B+3)%4].Str}
			// hooks are switched off (allowance 0) by one parameter update in three and on again by the others
			p.HookMaxGas = []uint64{opchildtypes.DefaultHookMaxGas, 0, 300_000}[op.C%3]
			emit(op, l2.Deliver(opchildtypes.NewMsgUpdateParams(l2.Authority, &p)))
			q, _ := l2.K.GetParams(l2.Ctx)
			fmt.Fprintf(&sb, "PARAMS executors=%v whitelist=%v\n", q.BridgeExecutors, q.FeeWhitelist)
		case "deposit":
			seq, _ := l2.K.GetNextL1Sequence(l2.Ctx)
			to := users[op.A%4].Str
			if op.B%3 == 0 {
				to = "bad-recipient"
			}
			var data []byte
			if op.S == "hook" {
				num, sq := accInfo(l2, users[op.A%4])
				data = signTx(l2, []sdk.Msg{banktypes.NewMsgSend(users[op.A%4].Addr, users[(op.A+1)%4].Addr, sdk.NewCoins(coinOf("stake", 1)))}, []cryptotypes.PrivKey{users[op.A%4].Priv}, []uint64{num}, []uint64{sq}, henv.L2ChainID)
			}
			amount := coinOf(denoms[op.B%2], op.C)
			if op.S == "huge" {
				// 2^255 units: the second such deposit of a denom overflows the supply inside the bank module (a panic that
				// is not "out of gas"), the deposit is bounced with the panic as its reason
				amount.Amount = math.NewIntFromBigInt(new(big.Int).Lsh(big.NewInt(1), 255))
				to = users[op.A%4].Str
				data = nil
			}
			emit(op, l2.Deliver(opchildtypes.NewMsgFinalizeTokenDeposit(exec.Str, users[0].Str, to, amount, seq, 7, bases[op.B%2], data)))
		case "withdraw":
			emit(op, l2.Deliver(opchildtypes.NewMsgInitiateTokenWithdrawal(users[op.A%4].Str, users[op.B%4].Str, coinOf(denoms[op.B%2], op.C%20+1))))
		case "batch":
			// an admin batch whose inner messages are signed by two different users: refused, with the same error everywhere
			inner := []sdk.Msg{
				banktypes.NewMsgSend(users[op.A%4].Addr, users[(op.A+1)%4].Addr, sdk.NewCoins(coinOf("stake", 1))),
				banktypes.NewMsgSend(users[(op.A+2)%4].Addr, users[op.B%4].Addr, sdk.NewCoins(coinOf("stake", 1))),
				banktypes.NewMsgSend(users[(op.A+3)%4].Addr, users[op.B%4].Addr, sdk.NewCoins(coinOf("stake", 1))),
			}
			m, err := opchildtypes.NewMsgExecuteMessages(admin.Str, inner)
			if err != nil {
				panic(err)
			}
			emit(op, l2.Deliver(m))
		case "badinfo":
			// bridge info whose batch chain type is undefined, sent by anybody: refused, with the same error everywhere
			cfg := henv.DefaultBridgeConfig(exec.Str, exec.Str, time.Hour)
			cfg.BatchInfo.ChainType = ophosttypes.BatchInfo_ChainType([]int32{0, 7, 9}[op.A%3])
			emit(op, l2.Deliver(opchildtypes.NewMsgSetBridgeInfo(users[op.B%4].Str, opchildtypes.BridgeInfo{BridgeId: 1, BridgeAddr: "bridge-addr", L1ChainId: c15ChainID, L1ClientId: c15ClientID, BridgeConfig: cfg})))
		case "hostvals":
			// the light client of L1 is updated: the set of L1 validators the oracle checks against is replaced
			// (one or all of them leave), known as of the next L1 height
			hostGen++
			hostHeight++
			set := &cmtproto.ValidatorSet{}
			for i := range hostVals {
				if op.A%2 == 0 || i == int(op.B%4) {
					k := henv.MakeConsKey(fmt.Sprintf("c18-host-%d-gen%d", i, hostGen))
					hostVals[i] = c15Val{priv: k, power: int64(10 + i), addr: k.PubKey().Address()}
				}
				pk, _ := cryptocodec.ToCmtProtoPublicKey(hostVals[i].priv.PubKey())
				set.Validators = append(set.Validators, &cmtproto.Validator{Address: hostVals[i].addr, PubKey: pk, VotingPower: hostVals[i].power})
			}
			err := l2.K.UpdateHostValidatorSet(l2.Ctx, c15ClientID, hostHeight, set)
			curSet = set
			h, _ := l2.K.HostValidatorStore.GetLastHeight(l2.Ctx)
			fmt.Fprintf(&sb, "%s => L1 validator set of height %d registered: %v (recorded height now %d)\n", op, hostHeight, err, h)
		case "oracle-late":
			if held != nil {
				r := l2.Deliver(held)
				emit(op, r)
				if r.OK() && heldTs > maxApplied {
					maxApplied = heldTs
				}
				held = nil
			}
		case "oracle":
			// timestamps mostly increase; one update in four carries an older one, and updates may carry a
			// subset of the pairs, so that an update can be refused for some pairs after others were written
			if op.B%4 == 3 {
				ts -= 500
			} else {
				ts += 1000
			}
			mask := op.A % 16
			var votes []cometabci.ExtendedVoteInfo
			for vi, v := range hostVals {
				if vi == int(op.A%4) && op.B%2 == 0 {
					continue // one validator is missing
				}
				prices := map[uint64][]byte{}
				for pi, p := range c18Pairs {
					if p != c15TsPair && mask != 0 && mask&(1<<uint(pi%4)) == 0 {
						continue
					}
					id, _ := currencypair.CurrencyPairToHashID(p)
					val := big.NewInt(op.C*100 + int64(pi*7+vi))
					if p == c15TsPair {
						val = big.NewInt(ts)
					}
					bz, _ := val.GobEncode()
					prices[id] = bz
				}
				ext, _ := c15VeCodec.Encode(vetypes.OracleVoteExtension{Prices: prices})
				signHeight := hostHeight
				if op.B%5 == 4 && vi >= 1 {
					signHeight = hostHeight - 1 // several votes in this commit do not verify: the update is refused, everywhere with the same error
				}
				sig, _ := v.priv.Sign(c15SignBytes(c15ChainID, signHeight, 1, ext))
				votes = append(votes, cometabci.ExtendedVoteInfo{Validator: cometabci.Validator{Address: v.addr, Power: v.power}, VoteExtension: ext, ExtensionSignature: sig, BlockIdFlag: cmtproto.BlockIDFlagCommit})
			}
			data, _ := c15EcCodec.Encode(cometabci.ExtendedCommitInfo{Round: 1, Votes: votes})
			oracleMsg := opchildtypes.NewMsgUpdateOracle(exec.Str, uint64(hostHeight+1), data)
			if op.S == "hold" {
				// the executor has broadcast it, but it is not included yet: with uncommitted work switched on the
				// node checks it right away (on a branch), a later "oracle-late" delivers it - perhaps after the
				// L1 validator set it was signed by has been replaced
				held, heldTs = oracleMsg, ts
				fmt.Fprintf(&sb, "%s => held back\n", op)
				if c18Noise {
					branchL2(l2, func(b *henv.L2) { b.Deliver(held) })
				}
				continue
			}
			r := l2.Deliver(oracleMsg)
			emit(op, r)
			if r.OK() {
				oracleUpdates++
				if ts > maxApplied {
					maxApplied = ts
				}
			} else if op.B%5 != 4 && ts > maxApplied {
				// at least three of four validators signed correctly and the timestamp is newer than everything applied:
				// that this update is accepted follows from the script alone
				fmt.Fprintf(&sb, "UNEXPECTED-REFUSAL of %s: %v\n", op, r.Err)
			}
		}
	}
	endBlock()
	exported := l2.Enc.Marshaler.MustMarshalJSON(l2.K.ExportGenesis(l2.Ctx))
	fmt.Fprintf(&sb, "EXPORT %s\n", exported)
	// a fresh node started from that genesis: the validator updates it hands to the consensus engine
	n := henv.NewL2(henv.L2Options{Admin: admin.Str, Executors: []string{exec.Str}})
	n.Ctx = n.Ctx.WithBlockHeight(l2.Ctx.BlockHeight()).WithBlockTime(l2.Ctx.BlockTime())
	n.AK.InitGenesis(n.Ctx, *l2.AK.ExportGenesis(l2.Ctx))
	n.BK.InitGenesis(n.Ctx, l2.BK.ExportGenesis(l2.Ctx))
	var g2 opchildtypes.GenesisState
	n.Enc.Marshaler.MustUnmarshalJSON(exported, &g2)
	fmt.Fprintf(&sb, "REIMPORT-UPDATES [%s]\n", renderUpdates(n.K.InitGenesis(n.Ctx, &g2)))
	fmt.Fprintf(&sb, "REIMPORT-DUMP\n%s", dumpString(n.Dump()))
	fmt.Fprintf(&sb, "DUMP\n%s", dumpString(l2.Dump()))
	return sb.String(), maxLeaving, oracleUpdates
}

func genL2Script(rt *rapid.T) []c18Op {
	var s []c18Op
	n := rapid.IntRange(15, 50).Draw(rt, "len")
	for i := 0; i < n; i++ {
		k := drawWeighted(rt, "op", []weighted{{"add", 5}, {"remove", 4}, {"block", 5}, {"deposit", 5}, {"withdraw", 3}, {"oracle", 3}, {"plan", 2}, {"params", 1}, {"hostvals", 1}, {"oracle-late", 3}, {"badinfo", 1}, {"batch", 1}})
		op := c18Op{Kind: k, A: rapid.IntRange(0, 11).Draw(rt, "a"), B: rapid.IntRange(0, 11).Draw(rt, "b"), C: int64(rapid.IntRange(0, 1000).Draw(rt, "c"))}
		if k == "oracle" && rapid.IntRange(0, 2).Draw(rt, "hold") == 0 {
			op.S = "hold"
		}
		if k == "deposit" && rapid.IntRange(0, 3).Draw(rt, "hook") == 0 {
			op.S = "hook"
		}
		if k == "deposit" && rapid.IntRange(0, 7).Draw(rt, "huge") == 0 {
			op.S = "huge"
		}
		s = append(s, op)
	}
	return s
}

// ---- the property ----------------------------------------------------------------------------------------

var c18CaseNo int

// c18Noise: the execution also performs uncommitted work between the committed messages; a node's
// prior process history must not show in anything it commits or answers.
var c18Noise bool

func c18Compare(rt *rapid.T, what string, script []c18Op, traces []string) {
	for i := 1; i < len(traces); i++ {
		if traces[i] != traces[0] {
			c18Witness(what, script, firstDiffLine(traces[0], traces[i]))
			rt.Fatalf("C18 violated: execution %d of the same %s history differs from execution 0: %s\nscript: %v", i, what, firstDiffLine(traces[0], traces[i]), script)
		}
	}
}

func c18Digest(kind string, trace string) {
	c18CaseNo++
	if path := os.Getenv("VERIF_C18_DIGESTS"); path != "" {
		f, err := os.OpenFile(path, os.O_APPEND|os.O_CREATE|os.O_WRONLY, 0o644)
		if err == nil {
			fmt.Fprintf(f, "%d %s %x\n", c18CaseNo, kind, sha256.Sum256([]byte(trace)))
			f.Close()
		}
	}
}

func TestC18Rapid(t *testing.T) {
	rec := evid.For("C18")
	runRapid(t, 400, 5000, func(rt *rapid.T) {
		c := rec.Begin()
		if rapid.Bool().Draw(rt, "chain") {
			script := genL1Script(rt)
			var traces []string
			bridges := 0
			for i := 0; i < 3; i++ {
				c18Noise = i == 2
				var tr string
				var nb int
				run := func() { tr, nb = runL1Script(script) }
				switch i {
				case 1:
					saved := time.Local
					time.Local = time.FixedZone("UTC+9", 9*3600)
					run()
					time.Local = saved
				case 2:
					// ... and the node serves store-free queries (identifier derivations) on other goroutines meanwhile
					stop := make(chan struct{})
					var wg sync.WaitGroup
					for g := 0; g < 4; g++ {
						wg.Add(1)
						go func(g int) {
							defer wg.Done()
							for k := uint64(0); ; k++ {
								select {
								case <-stop:
									return
								default:
									_ = ophosttypes.L2Denom(k%7+uint64(g), "uother-denom-of-another-length")
									_ = ophosttypes.BridgeAddress(k % 5)
								}
							}
						}(g)
					}
					done := make(chan struct{})
					go func() { defer close(done); run() }()
					<-done
					close(stop)
					wg.Wait()
				default:
					run()
				}
				c18Noise = false
				traces, bridges = append(traces, tr), nb
			}
			c18Compare(rt, "L1", script, traces)
			c18Digest("L1", traces[0])
			c.Class("L1")
			for _, op := range script {
				if op.Kind == "create" && op.S == "channels-many" {
					c.Class("L1/bridge-listing-several-channels")
					break
				}
			}
			if bridges >= 2 {
				c.NonTrivial()
				c.Shape(fmt.Sprintf("L1/%d/%x", bridges, sha256.Sum256([]byte(traces[0])))[:24])
				c.Class("L1/at-least-2-bridges-exported")
			}
			c.Sample(func() interface{} {
				return map[string]interface{}{"chain": "L1", "script": fmt.Sprint(script), "executions_compared": 3, "trace_bytes": len(traces[0])}
			})
		} else {
			script := genL2Script(rt)
			var traces []string
			leaving, oracle := 0, 0
			for i := 0; i < 3; i++ {
				c18Noise = i == 2
				var tr string
				var l, o int
				run := func() { tr, l, o = runL2Script(script) }
				switch i {
				case 1:
					// a node whose operator lives in another time zone
					saved := time.Local
					time.Local = time.FixedZone("UTC+9", 9*3600)
					run()
					time.Local = saved
				case 2:
					// a node whose block execution runs on another goroutine
					done := make(chan struct{})
					go func() { defer close(done); run() }()
					<-done
				default:
					run()
				}
				c18Noise = false
				traces, leaving, oracle = append(traces, tr), l, o
			}
			c18Compare(rt, "L2", script, traces)
			if k := strings.Index(traces[0], "UNEXPECTED-REFUSAL"); k >= 0 {
				line := traces[0][k:]
				if nl := strings.Index(line, "\n"); nl >= 0 {
					line = line[:nl]
				}
				rt.Fatalf("C18 violated: the outcome of a message does not follow from the script: %s\nscript: %v", line, script)
			}
			c18Digest("L2", traces[0])
			c.Class("L2")
			if leaving >= 2 {
				c.Class("L2/block-with-2-or-more-validators-leaving")
			}
			if oracle > 0 {
				c.Class("L2/oracle-update-with-4-pairs-applied")
			}
			if strings.Contains(traces[0], "=> held back") && strings.Contains(traces[0], "\noracle-late(") {
				c.Class("L2/held-oracle-update-delivered-later")
			}
			if strings.Contains(traces[0], "L1 validator set of height") {
				c.Class("L2/l1-validator-set-replaced")
			}
			if leaving >= 2 || oracle > 0 {
				c.NonTrivial()
				c.Shape(fmt.Sprintf("L2/%d/%d/%x", leaving, oracle, sha256.Sum256([]byte(traces[0])))[:28])
			}
			c.Sample(func() interface{} {
				return map[string]interface{}{"chain": "L2", "script": fmt.Sprint(script), "executions_compared": 3, "trace_bytes": len(traces[0])}
			})
		}
		c.Done()
	})
}

// A divergence between two executions of one script is a violation of C18 whether or not a
// third execution shows it again (rapid would call that "flaky"): the witness - script and first
// differing line - is written out by the check itself and announced on stdout for the driver.
func c18Witness(what string, script []c18Op, diff string) {
	dir := os.Getenv("VERIF_REPLAY_DIR")
	if dir == "" {
		dir = "."
	}
	_ = os.MkdirAll(dir, 0o755)
	path := filepath.Join(dir, fmt.Sprintf("c18-witness-%d.json", c18CaseNo))
	bz, _ := json.MarshalIndent(map[string]interface{}{"kind": "witness", "test": "TestC18Witness", "chain": what, "script": script, "first_difference": diff}, "", " ")
	if err := os.WriteFile(path, bz, 0o644); err == nil {
		fmt.Printf("NONDETERMINISM-WITNESS property=C18 file=%s\n", path)
	}
}

// TestC18Witness re-executes the script of a saved witness (VERIF_CASE = path of the witness file)
// twenty times and reports a divergence if one shows again.
func TestC18Witness(t *testing.T) {
	path := replayCase()
	if path == "" {
		return
	}
	bz, err := os.ReadFile(path)
	if err != nil {
		t.Fatal(err)
	}
	var w struct {
		Chain  string  `json:"chain"`
		Script []c18Op `json:"script"`
	}
	if err := json.Unmarshal(bz, &w); err != nil {
		t.Fatal(err)
	}
	run := func() string {
		if w.Chain == "L1" {
			tr, _ := runL1Script(w.Script)
			return tr
		}
		tr, _, _ := runL2Script(w.Script)
		return tr
	}
	first := run()
	for i := 1; i < 20; i++ {
		c18Noise = i%3 == 2 // every third execution also performs uncommitted work
		tr := run()
		c18Noise = false
		if tr != first {
			t.Fatalf("C18 violated: execution %d of the saved script differs from execution 0: %s", i, firstDiffLine(first, tr))
		}
	}
}
