package props

import (
	"bytes"
	"fmt"
	"testing"
	"time"

	"cosmossdk.io/math"
	"pgregory.net/rapid"

	ophosttypes "github.com/initia-labs/OPinit/x/ophost/types"

	"verifharness/evid"
	"verifharness/henv"
)

var c05Weights = []weighted{{"claim", 10}, {"advance", 9}, {"propose", 7}, {"delete", 6}, {"deposit", 4}, {"create", 3}, {"role", 2}}

var c05Periods = []time.Duration{time.Second, 999 * time.Millisecond, time.Nanosecond, time.Second + time.Nanosecond, 90 * time.Second, 1900 * time.Millisecond, 2500 * time.Millisecond,
	7 * 24 * time.Hour, 1 << 62, 1<<63 - 1}

type c05Final struct {
	root []byte
	l2   uint64
	at   time.Time
}

// liveOutputAt returns the model output currently stored at index of bridge b.
func liveOutputAt(b *mBridge, index uint64) *mOutput {
	if index >= 1 && index <= uint64(len(b.Outputs)) {
		return b.Outputs[index-1]
	}
	return nil
}

func TestC05Rapid(t *testing.T) {
	rec := evid.For("C05")
	runRapid(t, 200, 20000, func(rt *rapid.T) {
		c := rec.Begin()
		w := newL1World(rt, l1Cfg{weights: c05Weights, maxBridges: 3, badCfgProb: 25, periods: c05Periods, noAutoAdvance: rapid.Bool().Draw(rt, "noauto"),
			offsets: []time.Duration{-time.Second - time.Nanosecond, -time.Second, -time.Second + time.Nanosecond, -time.Nanosecond, 0, time.Nanosecond, time.Second, 5 * time.Second}})
		w.opCreate(rt, true)
		// make the escrow of the first bridge liquid so that claims are decided by finality
		if b := w.bridges[1]; b != nil {
			for _, d := range w.denoms {
				w.e.Fund(escrowAddr(1), coinOf(d, 50_000_000))
				b.addLedger(d, math.NewInt(50_000_000))
			}
		}
		finalSeen := map[string]c05Final{} // "bridge/index" -> what became final
		nearBoundary, reproposeEarly := false, false
		shape := ""
		bulkAt := -1
		if rapid.IntRange(0, 14).Draw(rt, "bulk") == 0 {
			bulkAt = rapid.IntRange(3, 35).Draw(rt, "bulkAt")
		}
		repeatSteps(rt, 50, func(i int) {
			if i == bulkAt && len(w.ids) > 0 {
				// the proposer catches up in a burst: dozens of pending outputs above whatever is final already
				w.bulkPropose(rt, w.bridges[w.ids[0]], rapid.SampledFrom([]int{30, 45, 70, 120, 257, 300}).Draw(rt, "bulkN"))
				c.Class("burst-of-30-or-more-pending-outputs")
			}
			if rapid.IntRange(0, 24).Draw(rt, "restart") == 0 {
				// the chain is exported and a new one started from that genesis: what was final stays final, what was
				// pending keeps its window (the recorded proposal times survive; heights need not)
				w.restart(rt)
				c.Class("genesis-round-trip-inside-history")
			}
			var preMust, preMay bool
			st := w.step(rt)
			now := w.e.Ctx.BlockTime()
			b := w.bridges[st.Bridge]
			switch st.Kind {
			case "create":
				msg := st.Msg.(*ophosttypes.MsgCreateBridge)
				if st.Res.OK() && msg.Config.FinalizationPeriod <= 0 {
					rt.Fatalf("C05 violated at step %d: bridge %d accepted with finalization period %v (must be strictly positive)\nhistory:\n%s", i, st.Bridge, msg.Config.FinalizationPeriod, w.history())
				}
				if st.Res.OK() {
					c.Classf("period/%v", msg.Config.FinalizationPeriod)
				}
			case "claim":
				if b == nil {
					break
				}
				live := liveOutputAt(b, st.OutIndex)
				if st.Res.OK() {
					if live == nil {
						rt.Fatalf("C05 violated at step %d: claim accepted against index %d which stores no output\nhistory:\n%s", i, st.OutIndex, w.history())
					}
					_, may := w.finalByModel(b, live)
					if !may {
						rt.Fatalf("C05 violated at step %d: claim accepted at %s against output %d proposed at %s with period %v (earlier than period - 1s)\nhistory:\n%s",
							i, now, live.Index, live.At, b.Period, w.history())
					}
					if !bytes.Equal(live.Root[:], st.Out.Root[:]) {
						rt.Fatalf("C05 violated at step %d: claim built against a deleted output was accepted at index %d, which now stores a different root\nhistory:\n%s", i, st.OutIndex, w.history())
					}
				} else if live != nil && st.ClaimOK && st.Out == live {
					must, _ := w.finalByModel(b, live)
					funded := w.e.Balance(escrowAddr(b.ID), st.Tuple.Denom).GTE(math.NewIntFromUint64(st.Tuple.Amount))
					// paid was not updated (claim failed), so Paid tells whether it had been paid before
					if must && funded && !b.Paid[st.Tuple.key()] {
						rt.Fatalf("C05 violated at step %d: valid claim rejected although output %d has been final since %s: %v\nhistory:\n%s", i, live.Index, live.At.Add(b.Period), st.Res.Err, w.history())
					}
				}
				if live != nil {
					ft := live.At.Add(b.Period)
					if d := now.Sub(ft); d >= -time.Second-time.Nanosecond && d <= time.Second {
						nearBoundary = true
						c.Class("claim-within-1s-of-boundary")
					}
				}
				// delete -> re-propose -> early claim
				if st.Out != nil && live != nil && st.Out != live {
					reproposeEarly = true
					c.Class("claim-with-deleted-output-at-reproposed-index")
				}
			case "delete":
				if b == nil || st.Out == nil {
					break
				}
				// finality of the target before the deletion (time does not move inside a step)
				preMust, preMay = w.finalByModel(b, st.Out)
				if _, seen := finalSeen[fmt.Sprintf("%d/%d", b.ID, st.Out.Index)]; st.Res.OK() && seen && !preMust {
					rt.Fatalf("C05 violated at step %d: output %d was deleted at %s after the chain had already treated it as final (a withdrawal was paid against it or the last-finalized query named it)\nhistory:\n%s", i, st.OutIndex, now, w.history())
				}
				if st.Res.OK() && preMust {
					rt.Fatalf("C05 violated at step %d: output %d deleted at %s although final since %s\nhistory:\n%s", i, st.OutIndex, now, st.Out.At.Add(b.Period), w.history())
				}
				_ = preMay
				ft := st.Out.At.Add(b.Period)
				if d := now.Sub(ft); d >= -time.Second-time.Nanosecond && d <= time.Second {
					nearBoundary = true
					c.Class("delete-within-1s-of-boundary")
				}
			}
			// (5)/(6): whatever has been seen final stays, unchanged, and LastFinalizedOutput agrees.
			// "Seen final" = final by the model, or treated as final by the chain itself: a claim against it
			// was paid, or the last-finalized query named it (the one-second granularity cuts both ways).
			if st.Kind == "claim" && st.Res.OK() && b != nil {
				if live := liveOutputAt(b, st.OutIndex); live != nil {
					k := fmt.Sprintf("%d/%d", b.ID, live.Index)
					if _, ok := finalSeen[k]; !ok {
						finalSeen[k] = c05Final{root: live.Root[:], l2: live.L2Block, at: live.At}
						c.Class("final-observed-through-a-paid-claim")
					}
				}
			}
			for _, id := range w.ids {
				mb := w.bridges[id]
				if lf, err := w.e.Q.LastFinalizedOutput(w.e.Ctx, &ophosttypes.QueryLastFinalizedOutputRequest{BridgeId: id}); err == nil && lf.OutputIndex > 0 {
					for _, o := range mb.Outputs {
						if o.Index <= lf.OutputIndex {
							k := fmt.Sprintf("%d/%d", id, o.Index)
							if _, ok := finalSeen[k]; !ok {
								finalSeen[k] = c05Final{root: o.Root[:], l2: o.L2Block, at: o.At}
							}
						}
					}
				}
				for _, o := range mb.Outputs {
					if must, _ := w.finalByModel(mb, o); must {
						k := fmt.Sprintf("%d/%d", id, o.Index)
						if _, ok := finalSeen[k]; !ok {
							finalSeen[k] = c05Final{root: o.Root[:], l2: o.L2Block, at: o.At}
						}
					}
				}
			}
			for k, f := range finalSeen {
				var id, idx uint64
				fmt.Sscanf(k, "%d/%d", &id, &idx)
				res, err := w.e.Q.OutputProposal(w.e.Ctx, &ophosttypes.QueryOutputProposalRequest{BridgeId: id, OutputIndex: idx})
				if err != nil {
					rt.Fatalf("C05 violated at step %d: output %s was final and is gone: %v\nhistory:\n%s", i, k, err, w.history())
				}
				p := res.OutputProposal
				if !bytes.Equal(p.OutputRoot, f.root) || p.L2BlockNumber != f.l2 || !p.L1BlockTime.Equal(f.at) {
					rt.Fatalf("C05 violated at step %d: final output %s changed\nhistory:\n%s", i, k, w.history())
				}
				// still counted as final
				lf, err := w.e.Q.LastFinalizedOutput(w.e.Ctx, &ophosttypes.QueryLastFinalizedOutputRequest{BridgeId: id})
				if err != nil || lf.OutputIndex < idx {
					rt.Fatalf("C05 violated at step %d: LastFinalizedOutput(%d) = %d (err %v) below final index %d\nhistory:\n%s", i, id, lf.GetOutputIndex(), err, idx, w.history())
				}
			}
			if err := c11Log(w); err != nil {
				rt.Fatalf("C05 (output log / last finalized) violated after step %d: %v\nhistory:\n%s", i, err, w.history())
			}
			if st.Res.OK() && st.Kind != "advance" {
				shape += st.Kind[:2]
				if st.Kind == "claim" {
					c.Class("claim-ok")
				}
				if st.Kind == "delete" {
					c.Class("delete-ok")
				}
			}
		})
		if nearBoundary || reproposeEarly {
			c.NonTrivial()
			c.Shape(shape + fmt.Sprint(nearBoundary, reproposeEarly))
		}
		c.Sample(func() interface{} { return map[string]interface{}{"history": w.log} })
		c.Done()
	})
}

// TestC05GenesisPeriod: a chain cannot be started from a genesis that contains a bridge whose
// finalization period (or submission interval) is not strictly positive: the import refuses it.
// (InitChain does not run genesis validation, so the import itself is the last line.)
func TestC05GenesisPeriod(t *testing.T) {
	rec := evid.For("C05")
	for _, p := range []time.Duration{0, -1, -time.Hour} {
		src := henv.NewL1(henv.L1Options{NoHook: true})
		u := henv.MakeUser("c05-genesis")
		if r := src.Deliver(ophosttypes.NewMsgCreateBridge(u.Str, henv.DefaultBridgeConfig(u.Str, u.Str, time.Minute))); !r.OK() {
			t.Fatal(r.Err)
		}
		gs := src.K.ExportGenesis(src.Ctx)
		gs.Bridges[0].BridgeConfig.FinalizationPeriod = p
		accepted := func() (ok bool) {
			defer func() {
				if r := recover(); r != nil {
					ok = false
				}
			}()
			e := importL1(src, gs)
			_, err := e.Q.Bridge(e.Ctx, &ophosttypes.QueryBridgeRequest{BridgeId: 1})
			return err == nil
		}()
		if accepted {
			caseFail(t, fmt.Sprintf("genesis-period/%v", p), "C05 violated: a chain started from a genesis whose bridge 1 has finalization period %v: every output of it is final at once", p)
		}
		c := rec.Begin()
		c.Class("genesis-with-non-positive-period-refused")
		c.Done()
	}
}
