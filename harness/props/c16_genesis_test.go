package props

import (
	"fmt"
	"sort"
	"strings"
	"testing"
	"time"

	"cosmossdk.io/math"
	sdk "github.com/cosmos/cosmos-sdk/types"
	"github.com/cosmos/cosmos-sdk/types/query"
	"pgregory.net/rapid"

	opchildtypes "github.com/initia-labs/OPinit/x/opchild/types"
	ophosttypes "github.com/initia-labs/OPinit/x/ophost/types"

	"verifharness/evid"
	"verifharness/henv"
)

var c16Weights = []weighted{{"deposit", 6}, {"propose", 7}, {"claim", 7}, {"advance", 5}, {"delete", 3}, {"create", 3}, {"role", 4}, {"send", 1}}

func renderResult(r henv.Result) string {
	s := "ok"
	if r.Err != nil {
		s = "err:" + r.Err.Error()
	}
	if r.Resp != nil {
		s += "|" + r.Resp.String()
	}
	return s + "|" + henv.RenderEvents(r.Events)
}

// l1Queries renders the answer of every ophost query for every bridge id.
func l1Queries(e *henv.L1, maxID uint64, tuples []wd) string {
	var sb strings.Builder
	q := e.Q
	ctx := e.Ctx
	var bkey []byte
	for page := 0; ; page++ {
		res, err := q.Bridges(ctx, &ophosttypes.QueryBridgesRequest{Pagination: &query.PageRequest{Key: bkey, Limit: 60}})
		fmt.Fprintf(&sb, "bridges page %d=%v/%v\n", page, res.GetBridges(), err)
		if err != nil || res.Pagination == nil || len(res.Pagination.NextKey) == 0 {
			break
		}
		bkey = res.Pagination.NextKey
	}
	p, err := q.Params(ctx, &ophosttypes.QueryParamsRequest{})
	fmt.Fprintf(&sb, "params=%v/%v\n", p, err)
	for id := uint64(1); id <= maxID+1; id++ {
		b, err := q.Bridge(ctx, &ophosttypes.QueryBridgeRequest{BridgeId: id})
		fmt.Fprintf(&sb, "%d bridge=%v/%v\n", id, b, err)
		s, err := q.NextL1Sequence(ctx, &ophosttypes.QueryNextL1SequenceRequest{BridgeId: id})
		fmt.Fprintf(&sb, "%d seq=%v/%v\n", id, s, err)
		// paginated lists are walked to their end (a default page holds 100 entries)
		var key []byte
		for page := 0; ; page++ {
			tp, err := q.TokenPairs(ctx, &ophosttypes.QueryTokenPairsRequest{BridgeId: id, Pagination: &query.PageRequest{Key: key, Limit: 60}})
			fmt.Fprintf(&sb, "%d pairs page %d=%v/%v\n", id, page, tp.GetTokenPairs(), err)
			if err != nil || tp.Pagination == nil || len(tp.Pagination.NextKey) == 0 {
				break
			}
			key = tp.Pagination.NextKey
		}
		outs, err := queryAllOutputs(e, id)
		fmt.Fprintf(&sb, "%d outputs=%v/%v\n", id, outs, err)
		lf, err := q.LastFinalizedOutput(ctx, &ophosttypes.QueryLastFinalizedOutputRequest{BridgeId: id})
		fmt.Fprintf(&sb, "%d lastfinal=%v/%v\n", id, lf, err)
		key = nil
		for page := 0; ; page++ {
			bi, err := q.BatchInfos(ctx, &ophosttypes.QueryBatchInfosRequest{BridgeId: id, Pagination: &query.PageRequest{Key: key, Limit: 60}})
			fmt.Fprintf(&sb, "%d batchinfos page %d=%v/%v\n", id, page, bi.GetBatchInfos(), err)
			if err != nil || bi.Pagination == nil || len(bi.Pagination.NextKey) == 0 {
				break
			}
			key = bi.Pagination.NextKey
		}
		for _, t := range tuples {
			h := t.leaf()
			cl, err := q.Claimed(ctx, &ophosttypes.QueryClaimedRequest{BridgeId: id, WithdrawalHash: h[:]})
			if err != nil || cl.Claimed {
				fmt.Fprintf(&sb, "%d claimed %s=%v/%v\n", id, t.key(), cl, err)
			}
		}
	}
	return sb.String()
}

// importL1 builds a fresh chain from the exported genesis of e (auth and bank are carried over
// with the SDK's own export/import).
func importL1(e *henv.L1, gs *ophosttypes.GenesisState) *henv.L1 {
	n := henv.NewL1(henv.L1Options{NoHook: true})
	n.Ctx = n.Ctx.WithBlockHeight(e.Ctx.BlockHeight()).WithBlockTime(e.Ctx.BlockTime())
	n.AK.InitGenesis(n.Ctx, *e.AK.ExportGenesis(e.Ctx))
	n.BK.InitGenesis(n.Ctx, e.BK.ExportGenesis(e.Ctx))
	// genesis is applied by InitChain, whose context has block height 0; the first block follows at the chain's height
	n.K.InitGenesis(n.Ctx.WithBlockHeight(0), gs)
	return n
}

func firstDiffLine(a, b string) string {
	la, lb := strings.Split(a, "\n"), strings.Split(b, "\n")
	for i := 0; i < len(la) && i < len(lb); i++ {
		if la[i] != lb[i] {
			return fmt.Sprintf("line %d:\n  original:   %s\n  reimported: %s", i, truncStr(la[i], 600), truncStr(lb[i], 600))
		}
	}
	return fmt.Sprintf("lengths %d vs %d lines", len(la), len(lb))
}

func TestC16L1(t *testing.T) {
	rec := evid.For("C16")
	runRapid(t, 250, 8000, func(rt *rapid.T) {
		c := rec.Begin()
		c.Class("L1")
		w := newL1World(rt, l1Cfg{weights: c16Weights, maxBridges: 4, withFee: true, badCfgProb: 5, manyBridges: true, periods: []time.Duration{time.Second, time.Minute, time.Hour}})
		w.opCreate(rt, true)
		deleted, batchUpd, claims := 0, 0, 0
		bulkAt := -1
		if rapid.IntRange(0, 11).Draw(rt, "bulk") == 0 {
			bulkAt = rapid.IntRange(0, 30).Draw(rt, "bulkAt")
		}
		repeatSteps(rt, 40, func(i int) {
			if i == bulkAt && len(w.ids) > 0 {
				switch rapid.IntRange(0, 1).Draw(rt, "bulkKind") {
				case 0:
					w.bulkDenoms(rt, w.bridges[w.ids[0]], rapid.IntRange(101, 140).Draw(rt, "bulkN"))
					c.Class("L1/bridge-with-more-than-100-token-pairs")
				case 1:
					w.bulkPropose(rt, w.bridges[w.ids[0]], rapid.IntRange(101, 140).Draw(rt, "bulkN"))
					c.Class("L1/bridge-with-more-than-100-outputs")
				}
			}
			st := w.step(rt)
			if st.Res.OK() {
				switch st.Kind {
				case "delete":
					deleted++
				case "role:batch":
					batchUpd++
				case "claim":
					claims++
				}
			}
		})
		fail := func(f string, a ...interface{}) {
			rt.Fatalf("C16 (L1) violated: %s\nhistory:\n%s", fmt.Sprintf(f, a...), w.history())
		}
		e := w.e
		g1 := e.K.ExportGenesis(e.Ctx)
		if err := ophosttypes.ValidateGenesis(g1, e.AK.AddressCodec()); err != nil {
			fail("exported genesis does not validate: %v", err)
		}
		j1 := string(e.Enc.Marshaler.MustMarshalJSON(g1))
		// the genesis travels as JSON: what is imported is what can be read back from the exported file
		var g1read ophosttypes.GenesisState
		if err := e.Enc.Marshaler.UnmarshalJSON([]byte(j1), &g1read); err != nil {
			fail("the exported genesis cannot be read back: %v\n%s", err, truncStr(j1, 1500))
		}
		if err := ophosttypes.ValidateGenesis(&g1read, e.AK.AddressCodec()); err != nil {
			fail("the exported genesis, read back from JSON, does not validate: %v", err)
		}
		n := importL1(e, &g1read)
		g2 := n.K.ExportGenesis(n.Ctx)
		j2 := string(n.Enc.Marshaler.MustMarshalJSON(g2))
		if j1 != j2 {
			fail("genesis exported from the re-imported chain differs:\n original:   %s\n reimported: %s", truncStr(j1, 3000), truncStr(j2, 3000))
		}
		tuples := w.allTuples()
		if a, b := l1Queries(e, w.nextID, tuples), l1Queries(n, w.nextID, tuples); a != b {
			fail("queries answer differently after the round trip: %s", firstDiffLine(a, b))
		}
		// identical probe sequence on both chains
		nProbes := rapid.IntRange(10, 20).Draw(rt, "probes")
		for i := 0; i < nProbes; i++ {
			before := e.Ctx.BlockTime()
			st := w.step(rt) // executes on the original and updates the generator's model
			if e.Ctx.BlockTime().After(before) || st.Kind == "advance" {
				n.AdvanceTo(e.Ctx.BlockTime())
				n.Ctx = n.Ctx.WithBlockHeight(e.Ctx.BlockHeight())
			}
			if st.Msg == nil {
				continue
			}
			r2 := n.Deliver(st.Msg)
			if a, b := renderResult(st.Res), renderResult(r2); a != b {
				fail("probe %d (%s) answered differently:\n original:   %s\n reimported: %s", i, st.Kind, truncStr(a, 1500), truncStr(b, 1500))
			}
		}
		tuples = w.allTuples()
		if a, b := l1Queries(e, w.nextID, tuples), l1Queries(n, w.nextID, tuples); a != b {
			fail("queries answer differently after the probes: %s", firstDiffLine(a, b))
		}
		if deleted > 0 || batchUpd > 0 || claims > 0 {
			c.NonTrivial()
			c.Shape(fmt.Sprintf("L1/%d/%d/%d/%d/%d", len(w.ids), deleted, batchUpd, claims, len(j1)/200))
		}
		c.Classf("L1/deleted-output=%v", deleted > 0)
		c.Classf("L1/batch-info-history=%v", batchUpd > 0)
		c.Classf("L1/claim-record=%v", claims > 0)
		c.Sample(func() interface{} {
			return map[string]interface{}{"chain": "L1", "history": w.log, "genesis_bytes": len(j1)}
		})
		c.Done()
	})
}

// ---- L2 ---------------------------------------------------------------------------------------------

func l2Queries(l2 *henv.L2, denoms []string, ops []sdk.ValAddress) string {
	var sb strings.Builder
	q, ctx := l2.Q, l2.Ctx
	p, err := q.Params(ctx, &opchildtypes.QueryParamsRequest{})
	fmt.Fprintf(&sb, "params=%v/%v\n", p, err)
	vs, err := q.Validators(ctx, &opchildtypes.QueryValidatorsRequest{})
	fmt.Fprintf(&sb, "validators=%v/%v\n", vs, err)
	for _, op := range ops {
		v, err := q.Validator(ctx, &opchildtypes.QueryValidatorRequest{ValidatorAddr: op.String()})
		fmt.Fprintf(&sb, "validator %s=%v/%v\n", op, v, err)
	}
	bi, err := q.BridgeInfo(ctx, &opchildtypes.QueryBridgeInfoRequest{})
	fmt.Fprintf(&sb, "bridgeinfo=%v/%v\n", bi, err)
	s1, err := q.NextL1Sequence(ctx, &opchildtypes.QueryNextL1SequenceRequest{})
	fmt.Fprintf(&sb, "nextl1=%v/%v\n", s1, err)
	s2, err := q.NextL2Sequence(ctx, &opchildtypes.QueryNextL2SequenceRequest{})
	fmt.Fprintf(&sb, "nextl2=%v/%v\n", s2, err)
	for _, d := range denoms {
		b, err := q.BaseDenom(ctx, &opchildtypes.QueryBaseDenomRequest{Denom: d})
		fmt.Fprintf(&sb, "basedenom %s=%v/%v\n", d, b, err)
	}
	var lp []string
	_ = l2.K.IterateLastValidatorPowers(ctx, func(op []byte, p int64) (bool, error) {
		lp = append(lp, fmt.Sprintf("%X=%d", op, p))
		return false, nil
	})
	sort.Strings(lp)
	fmt.Fprintf(&sb, "lastpowers=%v\n", lp)
	return sb.String()
}

func TestC16L2(t *testing.T) {
	rec := evid.For("C16")
	runRapid(t, 250, 8000, func(rt *rapid.T) {
		c := rec.Begin()
		c.Class("L2")
		nGen := rapid.IntRange(1, 3).Draw(rt, "genesis")
		w, err := newValWorld(nGen, uint32(rapid.IntRange(nGen, 5).Draw(rt, "max")), uint32(rapid.SampledFrom([]int{0, 3, 100}).Draw(rt, "retention")))
		if err != nil {
			rt.Fatalf("genesis: %v", err)
		}
		l2 := w.l2
		exec := w.executors[0].Str
		users := []henv.User{henv.MakeUser("c16-u0"), henv.MakeUser("c16-u1"), henv.MakeUser("c16-u2")}
		for _, u := range users {
			l2.Fund(u.Addr, coinOf("stake", 100))
		}
		denoms := []string{"l2/aaaa", "l2/bbbb"}
		bases := map[string]string{"l2/aaaa": "uinit", "l2/bbbb": "uusdc"}
		refunds, removed := 0, 0
		fail := func(f string, a ...interface{}) {
			rt.Fatalf("C16 (L2) violated: %s\nhistory:\n%s", fmt.Sprintf(f, a...), w.history())
		}
		// traffic generator shared by the history and the probes; returns the message (nil = block boundary)
		nextSeq := func() uint64 { s, _ := l2.K.GetNextL1Sequence(l2.Ctx); return s }
		genMsg := func() sdk.Msg {
			switch drawWeighted(rt, "l2op", []weighted{{"deposit", 5}, {"withdraw", 3}, {"add", 3}, {"remove", 3}, {"bridgeinfo", 1}, {"params", 1}, {"block", 4}}) {
			case "deposit":
				to := users[rapid.IntRange(0, 2).Draw(rt, "to")].Str
				if rapid.IntRange(0, 2).Draw(rt, "bad") == 0 {
					to = "garbage-recipient"
				}
				d := rapid.SampledFrom(denoms).Draw(rt, "denom")
				return opchildtypes.NewMsgFinalizeTokenDeposit(exec, users[0].Str, to, coinOf(d, int64(rapid.IntRange(0, 500).Draw(rt, "amt"))), nextSeq(), 9, bases[d], nil)
			case "withdraw":
				u := users[rapid.IntRange(0, 2).Draw(rt, "wu")]
				return opchildtypes.NewMsgInitiateTokenWithdrawal(u.Str, users[0].Str, coinOf(rapid.SampledFrom(denoms).Draw(rt, "wd"), int64(rapid.IntRange(1, 50).Draw(rt, "wamt"))))
			case "add":
				m, _ := opchildtypes.NewMsgAddValidator("m", l2.Authority, w.ops[rapid.IntRange(0, nValOps-1).Draw(rt, "op")].String(), w.keys[rapid.IntRange(0, nValKeys-1).Draw(rt, "key")].PubKey())
				return m
			case "remove":
				opI := rapid.IntRange(0, nValOps-1).Draw(rt, "rop")
				// never empty the validator set (CometBFT cannot represent it)
				pos, _, _ := l2.StateValidators()
				if len(pos) <= 1 {
					return nil
				}
				m, _ := opchildtypes.NewMsgRemoveValidator(l2.Authority, w.ops[opI].String())
				return m
			case "bridgeinfo":
				cfg := henv.DefaultBridgeConfig(users[0].Str, users[1].Str, time.Hour)
				cfg.OracleEnabled = rapid.Bool().Draw(rt, "oe")
				return opchildtypes.NewMsgSetBridgeInfo(exec, opchildtypes.BridgeInfo{BridgeId: 3, BridgeAddr: "bridge-3", L1ChainId: "l1", L1ClientId: "07-tendermint-0", BridgeConfig: cfg})
			case "params":
				p, _ := l2.K.GetParams(l2.Ctx)
				p.HookMaxGas = uint64(rapid.IntRange(0, 5).Draw(rt, "hmg")) * 100000
				p.FeeWhitelist = []string{users[rapid.IntRange(0, 2).Draw(rt, "fw")].Str}
				return opchildtypes.NewMsgUpdateParams(l2.Authority, &p)
			}
			return nil
		}
		if err := l2.BeginBlock(); err != nil {
			fail("%v", err)
		}
		repeatSteps(rt, 30, func(i int) {
			m := genMsg()
			if m == nil {
				if rapid.IntRange(0, 5).Draw(rt, "planDue") == 0 {
					// an executor-change plan is due at the end of this block: a new validator (fresh operator or the
					// operator's own key) and a new executor list, which may name an account more than once
					cands := []string{exec, users[1].Str, users[2].Str}
					var execs []string
					for k := rapid.IntRange(1, 3).Draw(rt, "planExecs"); k > 0; k-- {
						execs = append(execs, rapid.SampledFrom(cands).Draw(rt, "planExec"))
					}
					p := c14Plan{height: uint64(l2.Ctx.BlockHeight()), opI: rapid.IntRange(0, nValOps-1).Draw(rt, "planOp"), keyI: nValKeys + rapid.IntRange(0, 1).Draw(rt, "planKey"), executors: execs}
					if w.planClass(p) == "clean" {
						if err := l2.K.RegisterExecutorChangePlan(uint64(i+1), p.height, w.ops[p.opI].String(), "plan", w.pubKeyJSON(p.keyI), "info", execs); err == nil {
							exec = execs[0]
							w.logf("executor-change plan due at height %d: op%d key%d executors %v", p.height, p.opI, p.keyI, execs)
							c.Class("L2/executor-change-plan-executed")
							seen := map[string]bool{}
							for _, e := range execs {
								if seen[e] {
									c.Class("L2/plan-lists-an-executor-twice")
									break
								}
								seen[e] = true
							}
						}
					}
				}
				updates, err := l2.EndBlock()
				if err != nil {
					fail("EndBlock: %v", err)
				}
				if err := l2.ApplyUpdates(updates); err != nil {
					fail("engine rejects updates: %v", err)
				}
				l2.NextBlock(5 * time.Second)
				if err := l2.BeginBlock(); err != nil {
					fail("%v", err)
				}
				w.logf("block boundary, engine set {%s}", henv.RenderPowerMap(l2.MirrorMap()))
				return
			}
			r := l2.Deliver(m)
			w.logf("%T -> %v", m, r.Err)
			if r.OK() {
				if _, ok := m.(*opchildtypes.MsgFinalizeTokenDeposit); ok && len(parseWithdrawalEvents(r.Events)) > 0 {
					refunds++
				}
				if _, ok := m.(*opchildtypes.MsgRemoveValidator); ok {
					removed++
				}
			}
		})
		// one history in four ends with a replacement at capacity inside the last block: the maximum is lowered to
		// the number of stored validators, one of them is removed and another operator with a fresh key is offered
		// (whatever the chain answers - the export is then taken in the middle of that block)
		replaceAtCap := rapid.IntRange(0, 3).Draw(rt, "replaceAtCap") == 0
		if replaceAtCap {
			pos, all, _ := l2.StateValidators()
			if len(pos) >= 2 {
				p, _ := l2.K.GetParams(l2.Ctx)
				p.MaxValidators = uint32(len(all))
				r := l2.Deliver(opchildtypes.NewMsgUpdateParams(l2.Authority, &p))
				w.logf("max validators := %d -> %v", len(all), r.Err)
				stored := map[string]bool{}
				for _, v := range all {
					stored[v.OperatorAddress] = true
				}
				var leaving *opchildtypes.Validator
				for i := range all {
					if all[i].ConsPower > 0 {
						leaving = &all[i]
						break
					}
				}
				if leaving != nil {
					m, _ := opchildtypes.NewMsgRemoveValidator(l2.Authority, leaving.OperatorAddress)
					r := l2.Deliver(m)
					w.logf("remove %s -> %v", leaving.OperatorAddress, r.Err)
					if r.OK() {
						removed++
					}
				}
				for _, op := range w.ops {
					if !stored[op.String()] {
						m, _ := opchildtypes.NewMsgAddValidator("replacement", l2.Authority, op.String(), henv.MakeConsKey("c16-replacement").PubKey())
						r := l2.Deliver(m)
						w.logf("add replacement %s -> %v", op.String(), r.Err)
						break
					}
				}
				c.Class("L2/replacement-at-capacity-before-a-mid-block-export")
			} else {
				replaceAtCap = false
			}
		}
		// usually genesis is exported between blocks; a state in the middle of a block (validators marked for
		// removal but still bonded) is reachable too
		if midBlock := replaceAtCap || rapid.IntRange(0, 3).Draw(rt, "midBlockExport") == 0; !midBlock {
			updates, err := l2.EndBlock()
			if err != nil {
				fail("EndBlock: %v", err)
			}
			if err := l2.ApplyUpdates(updates); err != nil {
				fail("engine rejects updates: %v", err)
			}
			l2.NextBlock(5 * time.Second)
		} else {
			c.Class("L2/export-in-the-middle-of-a-block")
		}

		g1 := l2.K.ExportGenesis(l2.Ctx)
		if err := opchildtypes.ValidateGenesis(g1, l2.AK.AddressCodec()); err != nil {
			fail("exported genesis does not validate: %v", err)
		}
		j1 := string(l2.Enc.Marshaler.MustMarshalJSON(g1))
		// fresh chain
		n := henv.NewL2(henv.L2Options{Admin: w.admin.Str, Executors: []string{exec}})
		n.Ctx = n.Ctx.WithBlockHeight(l2.Ctx.BlockHeight()).WithBlockTime(l2.Ctx.BlockTime()).WithBlockHeader(l2.Ctx.BlockHeader()).WithConsensusParams(l2.Ctx.ConsensusParams())
		n.AK.InitGenesis(n.Ctx, *l2.AK.ExportGenesis(l2.Ctx))
		n.BK.InitGenesis(n.Ctx, l2.BK.ExportGenesis(l2.Ctx))
		var g1copy opchildtypes.GenesisState
		n.Enc.Marshaler.MustUnmarshalJSON([]byte(j1), &g1copy)
		initUpdates := n.K.InitGenesis(n.Ctx, &g1copy)
		if err := n.ApplyUpdates(initUpdates); err != nil {
			fail("the validator updates returned by InitGenesis are rejected by the consensus engine: %v", err)
		}
		if a, b := henv.RenderPowerMap(l2.MirrorMap()), henv.RenderPowerMap(n.MirrorMap()); a != b {
			fail("initial validator updates after import describe {%s}, the bonded set is {%s}", b, a)
		}
		j2 := string(n.Enc.Marshaler.MustMarshalJSON(n.K.ExportGenesis(n.Ctx)))
		if j1 != j2 {
			fail("genesis exported from the re-imported chain differs:\n original:   %s\n reimported: %s", truncStr(j1, 3000), truncStr(j2, 3000))
		}
		if a, b := l2Queries(l2, denoms, w.ops), l2Queries(n, denoms, w.ops); a != b {
			fail("queries answer differently after the round trip: %s", firstDiffLine(a, b))
		}
		// one-step probes, complete over the validator message space: every (operator, consensus key) pair is
		// offered as MsgAddValidator and every operator as MsgRemoveValidator, each on a branch of both chains
		oneStep := func(when string) {
			var ms []sdk.Msg
			for _, op := range w.ops {
				for k := 0; k < nValKeys; k++ {
					m, _ := opchildtypes.NewMsgAddValidator("m", l2.Authority, op.String(), w.keys[k].PubKey())
					ms = append(ms, m)
				}
				m, _ := opchildtypes.NewMsgRemoveValidator(l2.Authority, op.String())
				ms = append(ms, m)
			}
			for _, m := range ms {
				var a, b string
				branchL2(l2, func(x *henv.L2) { a = renderResult(x.Deliver(m)) })
				branchL2(n, func(x *henv.L2) { b = renderResult(x.Deliver(m)) })
				if a != b {
					fail("%s: %T %v answered differently:\n original:   %s\n reimported: %s", when, m, m, truncStr(a, 800), truncStr(b, 800))
				}
			}
		}
		oneStep("right after the import")
		// probes: same messages and block boundaries on both chains
		nProbes := rapid.IntRange(10, 20).Draw(rt, "probes")
		for i := 0; i < nProbes; i++ {
			m := genMsg()
			if m == nil {
				u1, e1 := l2.EndBlock()
				u2, e2 := n.EndBlock()
				if fmt.Sprint(e1) != fmt.Sprint(e2) || renderUpdates(u1) != renderUpdates(u2) {
					fail("probe %d: EndBlock returned (%s, %v) on the original and (%s, %v) on the re-imported chain", i, renderUpdates(u1), e1, renderUpdates(u2), e2)
				}
				if e1 == nil {
					if err := l2.ApplyUpdates(u1); err != nil {
						fail("engine rejects updates: %v", err)
					}
					_ = n.ApplyUpdates(u2)
				}
				l2.NextBlock(5 * time.Second)
				n.NextBlock(5 * time.Second)
				continue
			}
			r1, r2 := l2.Deliver(m), n.Deliver(m)
			if a, b := renderResult(r1), renderResult(r2); a != b {
				fail("probe %d (%T) answered differently:\n original:   %s\n reimported: %s", i, m, truncStr(a, 1500), truncStr(b, 1500))
			}
		}
		if a, b := l2Queries(l2, denoms, w.ops), l2Queries(n, denoms, w.ops); a != b {
			fail("queries answer differently after the probes: %s", firstDiffLine(a, b))
		}
		for _, u := range users {
			if a, b := l2.BK.GetAllBalances(l2.Ctx, u.Addr).String(), n.BK.GetAllBalances(n.Ctx, u.Addr).String(); a != b {
				fail("balances differ after the probes: %s vs %s", a, b)
			}
		}
		if refunds > 0 && removed > 0 {
			c.NonTrivial()
			c.Shape(fmt.Sprintf("L2/%d/%d/%d", refunds, removed, len(j1)/100))
		}
		c.Classf("L2/refunded-deposit=%v", refunds > 0)
		c.Classf("L2/removed-validator=%v", removed > 0)
		c.Sample(func() interface{} {
			return map[string]interface{}{"chain": "L2", "history": w.log, "genesis_bytes": len(j1)}
		})
		c.Done()
	})
}

var _ = math.ZeroInt
