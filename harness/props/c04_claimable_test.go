package props

import (
	"bytes"
	"fmt"
	"strings"
	"testing"
	"time"

	"cosmossdk.io/math"
	cryptotypes "github.com/cosmos/cosmos-sdk/crypto/types"
	sdk "github.com/cosmos/cosmos-sdk/types"
	banktypes "github.com/cosmos/cosmos-sdk/x/bank/types"
	"pgregory.net/rapid"

	authtypes "github.com/cosmos/cosmos-sdk/x/auth/types"
	opchildtypes "github.com/initia-labs/OPinit/x/opchild/types"
	ophosttypes "github.com/initia-labs/OPinit/x/ophost/types"

	"verifharness/evid"
	"verifharness/henv"
)

var c04Denoms = []string{"uinit", "ibc/27394FB092D2ECCD56123C74F36E4C1F926001CEADA9CA97EA622B25F41E5EB2", "Mixed/Case-denom.x_1", "a" + strings.Repeat("b", 127)}

var c04Amounts = []string{"0", "1", "2", "1000000", "4294967296", "9223372036854775807", "9223372036854775808", "18446744073709551615",
	"18446744073709551616", "18446744073709551617", "340282366920938463463374607431768211456"}

// c04World collects every withdrawal the L2 records (from the results of real messages).
type c04World struct {
	tc      *twoChain
	nextL1  uint64
	records []l2Withdrawal
	kinds   map[uint64]string // l2 sequence -> "user" | "refund"
	// extraLevels > 0: the output that commits these withdrawals covers 2^extraLevels times as many
	// withdrawals of other users (their subtrees are opaque hashes)
	extraLevels int
	outs        []c04Out
	committed   int // records[:committed] are covered by an output
	l2Block     uint64
	notes       []string
	// restartL1: L1 goes through a genesis export / import between finalization and the claims
	restartL1 bool
	// sendDisabled: the L1 bank's send-enabled flag of every bridged denom is switched off before the claims
	sendDisabled bool
}

type c04Out struct {
	o    *mOutput
	from int // index in records of its first leaf
}

func newC04World() *c04World { return newC04WorldWith(0, 0) }

func newC04WorldWith(otherFirst, otherAfter int) *c04World {
	tc := newTwoChain(tcOpts{nExecutors: 1, otherFirst: otherFirst, otherAfter: otherAfter})
	tc.l1.Advance(700 * time.Millisecond)                                        // L1 block times have a sub-second part
	huge, _ := math.NewIntFromString("1361129467683753853853498429727072845824") // 2^130
	for _, d := range c04Denoms {
		tc.l1.Fund(tc.users[0].Addr, sdk.NewCoin(d, huge))
	}
	return &c04World{tc: tc, nextL1: 1, kinds: map[uint64]string{}}
}

// deposit sends an L1 deposit and relays it; it reports whether L1 accepted it.
func (w *c04World) deposit(to string, coin sdk.Coin) (accepted bool, err error) {
	return w.depositWithData(to, coin, nil)
}

func (w *c04World) depositWithData(to string, coin sdk.Coin, data []byte) (accepted bool, err error) {
	tc := w.tc
	_, p := tc.l1Deposit(tc.users[0], to, coin, data)
	if p == nil {
		return false, nil // rejected at the entry point: always acceptable
	}
	r := tc.l2.Deliver(relayMsg(tc.executors[0].Str, p))
	if !r.OK() {
		return true, fmt.Errorf("L1 accepted the deposit of %s to %q but its finalization on L2 fails: %v", coin, truncStr(to, 40), r.Err)
	}
	w.nextL1++
	for _, x := range parseWithdrawalEvents(r.Events) {
		w.records = append(w.records, x)
		w.kinds[x.Seq] = "refund"
		if x.To != p.From || x.From != p.To {
			w.kinds[x.Seq] = "user" // recorded by the deposit's hook
		}
	}
	// the withdrawals the L2 recorded are the ones it numbered: the counter and the announced events must agree
	if next, _ := tc.l2.K.GetNextL2Sequence(tc.l2.Ctx); next != uint64(len(w.records)+1) {
		return true, fmt.Errorf("L2 has numbered %d withdrawals but announced %d: a recorded withdrawal without an event can never be proven on L1", next-1, len(w.records))
	}
	return true, nil
}

func (w *c04World) withdraw(from henv.User, to string, coin sdk.Coin) henv.Result {
	r := w.tc.l2.Deliver(opchildtypes.NewMsgInitiateTokenWithdrawal(from.Str, to, coin))
	if r.OK() {
		for _, x := range parseWithdrawalEvents(r.Events) {
			w.records = append(w.records, x)
			w.kinds[x.Seq] = "user"
		}
	}
	return r
}

type c04Claimed struct {
	seq        uint64
	kind       string
	amount     math.Int
	selfPaired bool
	treeSize   int
	pos        int
	output     int // index of the output it was claimed from
	outputs    int // number of outputs at claim time
}

// commit is what the executor does from time to time: an output over the withdrawals recorded
// since the previous output, by the published tree rule.
func (w *c04World) commit() error {
	tc := w.tc
	if len(w.records) == w.committed {
		return nil
	}
	var ts []wd
	for i := w.committed; i < len(w.records); i++ {
		x := w.records[i]
		if x.Seq != uint64(i+1) {
			return fmt.Errorf("recorded L2 withdrawal sequences are not gap-free: position %d has sequence %d", i+1, x.Seq)
		}
		t, ok := tc.leafOf(x)
		if !ok {
			return fmt.Errorf("L2 recorded %s withdrawal #%d of %s%s: the amount does not fit the 64-bit commitment format, so it can never be proven on L1", w.kinds[x.Seq], x.Seq, x.Amount, x.Denom)
		}
		ts = append(ts, t)
	}
	w.l2Block += 10
	o, r := tc.proposeDeepTree(ts, w.l2Block, w.extraLevels)
	if !r.OK() {
		return fmt.Errorf("setup: propose failed: %v", r.Err)
	}
	w.outs = append(w.outs, c04Out{o: o, from: w.committed})
	w.committed = len(w.records)
	return nil
}

// settle commits what is left, lets every output become final (with ordinary activity on the
// neighbouring bridges in between) and claims every withdrawal with a positive amount and a valid
// L1 recipient - those of the older outputs after the newer ones have become final too.
func (w *c04World) settle(l2Block uint64) ([]c04Claimed, error) {
	tc := w.tc
	if err := w.commit(); err != nil {
		return nil, err
	}
	for i, id := range tc.neighbours {
		w.notes = append(w.notes, tc.neighbourChallenge(id, uint64(1+i%2)))
	}
	// the outputs were proposed at a block time with a sub-second part (x.7 s); the claims happen in the very
	// second in which the period elapses (x.2 s): final by the chain's whole-second rule, 0.5 s before the exact instant
	tc.l1.Advance(tc.period - 500*time.Millisecond)
	if len(w.outs) > 0 {
		newest := w.outs[len(w.outs)-1].o.Index
		if lf, err := tc.l1.Q.LastFinalizedOutput(tc.l1.Ctx, &ophosttypes.QueryLastFinalizedOutputRequest{BridgeId: tc.bridgeID}); err != nil || lf.OutputIndex < newest {
			tc.l1.Advance(time.Second) // not final yet by the chain's own account: wait
		} else {
			w.notes = append(w.notes, "claims happen within the second in which the period elapses")
		}
		// the challenger tries to delete what the chain calls final: refused, or the withdrawals below are lost
		for _, co := range w.outs {
			if r := tc.l1.Deliver(ophosttypes.NewMsgDeleteOutput(tc.chal.Str, tc.bridgeID, co.o.Index)); r.OK() {
				return nil, fmt.Errorf("output %d, which Query/LastFinalizedOutput reports as final, was deleted by the challenger: the %d withdrawals it commits can never be claimed", co.o.Index, len(co.o.Tuples))
			}
		}
	}
	if w.sendDisabled {
		// L1 governance has switched off user transfers of the bridged tokens (bank send-enabled flags) in the meantime;
		// that is about transfers between users, the bridge pays claims from its escrow all the same
		for _, d := range c04Denoms {
			tc.l1.BK.SetSendEnabled(tc.l1.Ctx, d, false)
		}
		w.notes = append(w.notes, "L1 bank: sending of the bridged denoms disabled before the claims")
	}
	if w.restartL1 {
		// L1 is restarted from its exported genesis between finalization and the claims (claims have no deadline)
		tc.restartL1(len(w.outs)%2 == 0)
		w.notes = append(w.notes, "L1 restarted from its exported genesis before the claims")
	}
	var out []c04Claimed
	for _, co := range w.outs {
		o := co.o
		for i, t := range o.Tuples {
			x := w.records[co.from+i]
			if !x.Amount.IsPositive() {
				continue
			}
			if _, err := sdk.AccAddressFromBech32(t.To); err != nil {
				continue // not a valid L1 recipient: outside the statement
			}
			toAddr, _ := sdk.AccAddressFromBech32(t.To)
			before := tc.l1.Balance(toAddr, t.Denom)
			_, self := o.Tree.Proof(i)
			res := tc.l1.Deliver(claimMsg(tc.users[3].Str, t, o, o.Index, i))
			if !res.OK() {
				return nil, fmt.Errorf("%s withdrawal #%d (%s%s from %q to %s) recorded by L2 cannot be finalized on L1 (output %d of %d, tree of %d leaves, position %d): %v\n%s",
					w.kinds[x.Seq], x.Seq, x.Amount, t.Denom, truncStr(t.From, 30), t.To, o.Index, len(w.outs), len(o.Tuples)<<uint(minInt(w.extraLevels, 40)), i, res.Err, strings.Join(w.notes, "\n"))
			}
			if toAddr.Equals(sdk.AccAddress(ophosttypes.BridgeAddress(tc.bridgeID))) {
				// paid from the escrow to the escrow: nothing to observe on the balance
			} else if !tc.l1.Balance(toAddr, t.Denom).Sub(before).Equal(x.Amount) {
				return nil, fmt.Errorf("claim of withdrawal #%d paid %s, recorded amount %s", x.Seq, tc.l1.Balance(toAddr, t.Denom).Sub(before), x.Amount)
			}
			out = append(out, c04Claimed{seq: x.Seq, kind: w.kinds[x.Seq], amount: x.Amount, selfPaired: self, treeSize: len(o.Tuples), pos: i, output: int(o.Index), outputs: len(w.outs)})
		}
	}
	return out, nil
}

func c04Recipient(rt *rapid.T, tc *twoChain) string {
	hrp := sdk.GetConfig().GetBech32AccountAddrPrefix()
	switch rapid.IntRange(0, 6).Draw(rt, "rcpt") {
	case 6:
		// an address that is a module account on L1 (L2 cannot know which addresses L1 treats specially)
		switch rapid.IntRange(0, 3).Draw(rt, "module") {
		case 0:
			return sdk.AccAddress(ophosttypes.BridgeAddress(tc.bridgeID)).String() // the bridge's own escrow
		case 1:
			return authtypes.NewModuleAddress(authtypes.FeeCollectorName).String()
		case 2:
			return authtypes.NewModuleAddress(ophosttypes.ModuleName).String()
		default:
			return authtypes.NewModuleAddress("gov").String()
		}
	case 5:
		// the all-uppercase spelling of a bech32 address is valid too
		return strings.ToUpper(tc.users[rapid.IntRange(1, 4).Draw(rt, "ru")].Str)
	case 0:
		return bech(hrp, []byte{byte(rapid.IntRange(1, 255).Draw(rt, "b1"))})
	case 1:
		return bech(hrp, bytes.Repeat([]byte{9}, 32))
	case 2:
		return bech(hrp, bytes.Repeat([]byte{3}, 255))
	default:
		return tc.users[rapid.IntRange(1, 4).Draw(rt, "ru")].Str
	}
}

func TestC04Rapid(t *testing.T) {
	rec := evid.For("C04")
	runRapid(t, 600, 15000, func(rt *rapid.T) {
		c := rec.Begin()
		w := newC04WorldWith(rapid.IntRange(0, 1).Draw(rt, "otherFirst"), rapid.IntRange(0, 1).Draw(rt, "otherAfter"))
		tc := w.tc
		if len(tc.neighbours) > 0 {
			c.Class("l1-with-neighbouring-bridges")
		}
		var log []string
		fail := func(err error) {
			rt.Fatalf("C04 violated: %v\nhistory:\n%s", err, strings.Join(log, "\n"))
		}
		big := 0
		nOps := 8
		if rapid.IntRange(0, 9).Draw(rt, "bigtree") == 0 {
			nOps = 100
		}
		if rapid.IntRange(0, 3).Draw(rt, "presetMetadata") == 0 {
			// the L2 bank module already has display metadata for the bridged tokens (e.g. from its genesis)
			for _, d := range c04Denoms {
				l2d := tcL2Denom(tc, d)
				presetBankMetadata(rt, tc.l2, l2d)
			}
			c.Class("l2-bank-metadata-preset")
		}
		// one history in four is committed by an output that covers far more withdrawals than these
		w.extraLevels = rapid.SampledFrom([]int{0, 0, 0, 0, 0, 0, 0, 0, 0, 3, 10, 13, 14, 15, 16, 17, 20, 29, 32, 40, 61, 64}).Draw(rt, "extraLevels")
		if tc.resendProposals = rapid.IntRange(0, 2).Draw(rt, "resendProposals") == 0; tc.resendProposals {
			c.Class("proposals-delivered-twice")
		}
		if w.sendDisabled = rapid.IntRange(0, 5).Draw(rt, "sendDisabled") == 0; w.sendDisabled {
			c.Class("l1-bank-send-disabled-before-the-claims")
		}
		if w.restartL1 = rapid.IntRange(0, 3).Draw(rt, "restartL1") == 0; w.restartL1 {
			c.Class("l1-restarted-from-genesis-before-the-claims")
		}
		nativeReady := false
		repeatSteps(rt, nOps, func(i int) {
			denom := rapid.SampledFrom(c04Denoms).Draw(rt, "denom")
			amt, _ := math.NewIntFromString(rapid.SampledFrom(c04Amounts).Draw(rt, "amount"))
			if nOps > 12 {
				amt = math.NewInt(int64(rapid.IntRange(1, 1000).Draw(rt, "small")))
			}
			switch drawWeighted(rt, "op", []weighted{{"deposit-withdraw", 6}, {"refund", 4}, {"withdraw-more", 2}, {"hook-withdraw", 3}, {"failing-hook", 3}, {"commit-output", 2}, {"withdraw-native", 1}, {"restart-l1", 1}}) {
			case "restart-l1":
				// L1 is restarted from its exported genesis in the middle of the history; the new chain may number its
				// blocks from 1 again. Outputs keep their windows, the proposer goes on proposing.
				re := rapid.Bool().Draw(rt, "renumberHeights")
				tc.restartL1(re)
				log = append(log, fmt.Sprintf("L1 restarted from its exported genesis (heights renumbered: %v)", re))
				c.Class("l1-restarted-inside-the-history")
			case "withdraw-native":
				// a token that was never bridged (native to L2, with ordinary bank metadata): if L2 records a withdrawal
				// of it, that record has to be claimable like any other - L1 holds nothing of it, so L2 must refuse
				user := tc.users[rapid.IntRange(1, 4).Draw(rt, "nuser")]
				if !nativeReady {
					nativeReady = true
					tc.l2.BK.SetDenomMetaData(tc.l2.Ctx, banktypes.Metadata{Base: "umin", Display: "min", Name: "min", Symbol: "MIN", DenomUnits: []*banktypes.DenomUnit{{Denom: "umin", Exponent: 0}, {Denom: "min", Exponent: 6}}})
					for _, u := range tc.users {
						tc.l2.Fund(u.Addr, coinOf("umin", 1000))
					}
				}
				r := w.withdraw(user, tc.users[2].Str, coinOf("umin", int64(rapid.IntRange(1, 50).Draw(rt, "namt"))))
				log = append(log, fmt.Sprintf("withdrawal of a native L2 token by a user: accepted by L2=%v (%v)", r.OK(), r.Err))
				c.Class("withdrawal-attempt-of-a-native-l2-token")
			case "commit-output":
				// the executor submits an output over what has been recorded since the last one
				if err := w.commit(); err != nil {
					fail(err)
				}
				log = append(log, fmt.Sprintf("output submitted (%d so far) over withdrawals up to #%d", len(w.outs), w.committed))
			case "failing-hook":
				// a deposit (also of nothing: amount 0) that carries hook data which fails on L2: the deposit is
				// credited and taken back, L2 records the refund - which must be claimable like any other
				user := tc.users[rapid.IntRange(1, 4).Draw(rt, "fuser")]
				data := rapid.SampledFrom([][]byte{{0xff, 0x01}, []byte("not a transaction"), {0x0a, 0x00}}).Draw(rt, "fdata")
				acc, err := w.depositWithData(user.Str, sdk.Coin{Denom: denom, Amount: amt}, data)
				if err != nil {
					fail(err)
				}
				log = append(log, fmt.Sprintf("deposit %s%s to user with failing hook data %x: accepted by L1=%v", amt, truncStr(denom, 12), data, acc))
				c.Class("deposit-with-failing-hook")
				if amt.IsZero() {
					c.Class("zero-amount-deposit-with-failing-hook")
				}
			case "hook-withdraw":
				// the withdrawal is recorded by a deposit hook signed by the recipient, before or after another hook message
				user := tc.users[rapid.IntRange(1, 4).Draw(rt, "huser")]
				small := math.NewInt(int64(rapid.IntRange(10, 1000).Draw(rt, "hamt")))
				tc.l2.Fund(user.Addr, coinOf("stake", 5))
				num, seq := accInfo(tc.l2, user)
				l2d := tcL2Denom(tc, denom)
				wmsg := opchildtypes.NewMsgInitiateTokenWithdrawal(user.Str, c04Recipient(rt, tc), sdk.NewCoin(l2d, math.NewInt(3)))
				smsg := banktypes.NewMsgSend(user.Addr, tc.users[1].Addr, sdk.NewCoins(sdk.NewCoin(l2d, math.NewInt(2))))
				msgs := []sdk.Msg{wmsg, smsg}
				switch rapid.IntRange(0, 3).Draw(rt, "hookShape") {
				case 0, 1:
					msgs = []sdk.Msg{smsg, wmsg}
				case 2:
					// the message after the withdrawal fails: the whole hook is undone, the deposit refunded
					msgs = []sdk.Msg{wmsg, banktypes.NewMsgSend(user.Addr, tc.users[1].Addr, sdk.NewCoins(sdk.NewCoin(l2d, math.NewInt(1<<50))))}
					c.Class("hook-withdrawal-followed-by-a-failing-message")
				}
				data := signTx(tc.l2, msgs, []cryptotypes.PrivKey{user.Priv}, []uint64{num}, []uint64{seq}, henv.L2ChainID)
				acc, err := w.depositWithData(user.Str, sdk.Coin{Denom: denom, Amount: small}, data)
				if err != nil {
					fail(err)
				}
				log = append(log, fmt.Sprintf("deposit %s%s with a hook that withdraws 3: accepted by L1=%v", small, truncStr(denom, 12), acc))
				c.Class("withdrawal-recorded-by-a-deposit-hook")
			case "deposit-withdraw":
				user := tc.users[rapid.IntRange(1, 4).Draw(rt, "user")]
				acc, err := w.deposit(user.Str, sdk.Coin{Denom: denom, Amount: amt})
				if err != nil {
					fail(err)
				}
				log = append(log, fmt.Sprintf("deposit %s%s to user: accepted by L1=%v", amt, truncStr(denom, 12), acc))
				if !acc {
					c.Class("l1-refused-deposit")
					return
				}
				// withdraw it (whole or part) back to an L1 address
				wamt := amt
				if rapid.Bool().Draw(rt, "part") && amt.GT(math.OneInt()) {
					wamt = amt.QuoRaw(2)
				}
				to := c04Recipient(rt, tc)
				r := w.withdraw(user, to, sdk.Coin{Denom: tcL2Denom(tc, denom), Amount: wamt})
				log = append(log, fmt.Sprintf("withdraw %s by user to %s: accepted by L2=%v (%v)", wamt, truncStr(to, 20), r.OK(), r.Err))
				if !r.OK() {
					c.Class("l2-refused-withdrawal")
				}
			case "refund":
				to := rapid.SampledFrom([]string{"not-an-l2-address", "受取人 with spaces", strings.Repeat("x", 400), " ", "init1qqqqqqqqqqqqqqqqqqqqqqqqqqqqqqqqqqqqqq", ""}).Draw(rt, "badto")
				acc, err := w.deposit(to, sdk.Coin{Denom: denom, Amount: amt})
				if err != nil {
					fail(err)
				}
				log = append(log, fmt.Sprintf("deposit %s%s to %q (refund expected): accepted by L1=%v", amt, truncStr(denom, 12), truncStr(to, 20), acc))
			case "withdraw-more":
				// a user who accumulated a balance through several deposits withdraws it at once
				user := tc.users[rapid.IntRange(1, 4).Draw(rt, "user2")]
				bal := tc.l2.Balance(user.Addr, tcL2Denom(tc, denom))
				if bal.IsPositive() {
					r := w.withdraw(user, c04Recipient(rt, tc), sdk.Coin{Denom: tcL2Denom(tc, denom), Amount: bal})
					log = append(log, fmt.Sprintf("withdraw whole balance %s: accepted by L2=%v", bal, r.OK()))
				}
			}
		})
		claimed, err := w.settle(10)
		if err != nil {
			fail(err)
		}
		nt := false
		shape := fmt.Sprintf("n=%d;", len(w.records))
		for _, cl := range claimed {
			c.Class("claimed/" + cl.kind)
			if cl.amount.GTE(math.NewInt(1 << 32)) {
				c.Class("claimed-amount>=2^32")
				big++
				nt = true
			}
			if cl.selfPaired {
				c.Class("claimed-via-self-paired-node")
				nt = true
			}
			if cl.kind == "refund" {
				nt = true
			}
			if cl.output < cl.outputs {
				c.Class("claimed-from-an-output-that-is-not-the-newest-final-one")
			}
			shape += fmt.Sprintf("%s%d/%v/%d;", cl.kind[:1], cl.pos, cl.selfPaired, cl.amount.BigInt().BitLen())
		}
		c.Classf("tree-size-bucket/%d", bucket(len(w.records)))
		if w.extraLevels > 0 && len(claimed) > 0 {
			c.Classf("output-covers-2^%d-or-more-withdrawals", (w.extraLevels/8)*8)
			if w.extraLevels >= 14 {
				c.Class("claimed-from-output-with-more-than-2^16-withdrawals")
			}
		}
		if nt {
			c.NonTrivial()
			c.Shape(shape)
		}
		c.Sample(func() interface{} {
			if len(log) > 40 {
				log = append(log[:40], fmt.Sprintf("... %d more", len(log)-40))
			}
			return map[string]interface{}{"history": log, "recorded_withdrawals": len(w.records), "claimed": len(claimed)}
		})
		c.Done()
	})
}

func bucket(n int) int {
	switch {
	case n == 0:
		return 0
	case n <= 4:
		return 4
	case n <= 16:
		return 16
	case n <= 64:
		return 64
	}
	return 512
}

// TestC04Trees: every tree size up to a bound, built from real L2 withdrawal events of both
// kinds, and every leaf position of it is claimed (bounded exhaustive).
func TestC04Trees(t *testing.T) {
	rec := evid.For("C04")
	maxN := 17
	if thorough() {
		maxN = 33
	}
	amtClasses := []string{"7", "4294967296", "18446744073709551615"}
	caseNo := 0
	for n := 1; n <= maxN; n++ {
		for ac, amtS := range amtClasses {
			caseNo++
			if !enumShard(caseNo) {
				continue
			}
			id := fmt.Sprintf("n=%d/amount=%s", n, amtS)
			if rc := replayCase(); rc != "" && rc != id {
				continue
			}
			w := newC04World()
			tc := w.tc
			amt, _ := math.NewIntFromString(amtS)
			for i := 0; i < n; i++ {
				if (i+ac)%3 == 2 {
					// a refund withdrawal: deposit to something that is not an L2 address
					if _, err := w.deposit(fmt.Sprintf("bogus recipient %d ✓", i), sdk.Coin{Denom: "uinit", Amount: amt}); err != nil {
						caseFail(t, id, "%v", err)
					}
					continue
				}
				user := tc.users[1+i%4]
				if acc, err := w.deposit(user.Str, sdk.Coin{Denom: "uinit", Amount: amt}); err != nil || !acc {
					caseFail(t, id, "deposit: accepted=%v err=%v", acc, err)
				}
				if r := w.withdraw(user, tc.users[1+(i+1)%4].Str, sdk.Coin{Denom: tcL2Denom(tc, "uinit"), Amount: amt}); !r.OK() {
					caseFail(t, id, "L2 refused a withdrawal of %s: %v", amt, r.Err)
				}
			}
			if len(w.records) != n {
				caseFail(t, id, "recorded %d withdrawals, expected %d", len(w.records), n)
			}
			claimed, err := w.settle(10)
			if err != nil {
				caseFail(t, id, "%v", err)
			}
			if len(claimed) != n {
				caseFail(t, id, "claimed %d of %d", len(claimed), n)
			}
			for _, cl := range claimed {
				c := rec.Begin()
				c.Class("trees/" + cl.kind)
				if cl.selfPaired || cl.amount.GTE(math.NewInt(1<<32)) || cl.kind == "refund" {
					c.NonTrivial()
					c.Shape(fmt.Sprintf("%s/pos=%d", id, cl.pos))
				}
				if cl.pos == 0 && n%8 == 1 {
					cc := cl
					c.Sample(func() interface{} {
						return map[string]interface{}{"tree_size": cc.treeSize, "position": cc.pos, "kind": cc.kind, "amount": cc.amount.String(), "proof_has_self_paired_node": cc.selfPaired}
					})
				}
				c.Done()
			}
		}
	}
	rec.ExhaustiveSubspace(fmt.Sprintf("every leaf position of every tree size 1..%d x 3 amount classes (7, 2^32, 2^64-1), leaves produced by real user withdrawals and refund withdrawals", maxN))
}
