package props

import (
	"encoding/json"
	"fmt"
	"sort"
	"strconv"
	"strings"
	"testing"
	"time"

	sdk "github.com/cosmos/cosmos-sdk/types"
	"pgregory.net/rapid"

	ophosttypes "github.com/initia-labs/OPinit/x/ophost/types"

	"verifharness/evid"
	"verifharness/henv"
)

// ---- an independent, token-level reading of the metadata ---------------------------------------

type jval struct {
	kind string // object array string number bool null
	str  string
	obj  []jmember
	arr  []jval
	esc  bool // string contained an escape or a non-ASCII / control byte
}

type jmember struct {
	key    string
	keyEsc bool
	val    jval
}

type jparser struct {
	b []byte
	i int
}

func (p *jparser) ws() {
	for p.i < len(p.b) && (p.b[p.i] == ' ' || p.b[p.i] == '\t' || p.b[p.i] == '\n' || p.b[p.i] == '\r') {
		p.i++
	}
}

func (p *jparser) value(depth int) (jval, error) {
	if depth > 40 {
		return jval{}, fmt.Errorf("too deep")
	}
	p.ws()
	if p.i >= len(p.b) {
		return jval{}, fmt.Errorf("eof")
	}
	switch c := p.b[p.i]; {
	case c == '{':
		p.i++
		v := jval{kind: "object"}
		p.ws()
		if p.i < len(p.b) && p.b[p.i] == '}' {
			p.i++
			return v, nil
		}
		for {
			p.ws()
			k, err := p.value(depth + 1)
			if err != nil || k.kind != "string" {
				return jval{}, fmt.Errorf("object key")
			}
			p.ws()
			if p.i >= len(p.b) || p.b[p.i] != ':' {
				return jval{}, fmt.Errorf("colon")
			}
			p.i++
			x, err := p.value(depth + 1)
			if err != nil {
				return jval{}, err
			}
			v.obj = append(v.obj, jmember{key: k.str, keyEsc: k.esc, val: x})
			p.ws()
			if p.i < len(p.b) && p.b[p.i] == ',' {
				p.i++
				continue
			}
			if p.i < len(p.b) && p.b[p.i] == '}' {
				p.i++
				return v, nil
			}
			return jval{}, fmt.Errorf("object end")
		}
	case c == '[':
		p.i++
		v := jval{kind: "array"}
		p.ws()
		if p.i < len(p.b) && p.b[p.i] == ']' {
			p.i++
			return v, nil
		}
		for {
			x, err := p.value(depth + 1)
			if err != nil {
				return jval{}, err
			}
			v.arr = append(v.arr, x)
			p.ws()
			if p.i < len(p.b) && p.b[p.i] == ',' {
				p.i++
				continue
			}
			if p.i < len(p.b) && p.b[p.i] == ']' {
				p.i++
				return v, nil
			}
			return jval{}, fmt.Errorf("array end")
		}
	case c == '"':
		p.i++
		v := jval{kind: "string"}
		var sb strings.Builder
		for {
			if p.i >= len(p.b) {
				return jval{}, fmt.Errorf("string eof")
			}
			ch := p.b[p.i]
			if ch == '"' {
				p.i++
				v.str = sb.String()
				return v, nil
			}
			if ch == '\\' {
				if p.i+1 >= len(p.b) {
					return jval{}, fmt.Errorf("escape eof")
				}
				// RFC 8259 escapes of ASCII characters spell the same string and are decoded here; every
				// other escape (non-ASCII code points, surrogates, malformed ones) stays unsettled
				simple := map[byte]byte{'"': '"', '\\': '\\', '/': '/', 'b': 8, 'f': 12, 'n': 10, 'r': 13, 't': 9}
				if d, ok := simple[p.b[p.i+1]]; ok {
					sb.WriteByte(d)
					p.i += 2
					continue
				}
				if p.b[p.i+1] == 'u' && p.i+6 <= len(p.b) {
					if cp, err := strconv.ParseUint(string(p.b[p.i+2:p.i+6]), 16, 32); err == nil && cp < 0x7f && !strings.ContainsAny(string(p.b[p.i+2:p.i+6]), "+-") {
						sb.WriteByte(byte(cp))
						p.i += 6
						continue
					}
				}
				v.esc = true
				p.i += 2
				sb.WriteByte('?')
				continue
			}
			if ch < 0x20 {
				return jval{}, fmt.Errorf("control char")
			}
			if ch >= 0x7f {
				v.esc = true
			}
			sb.WriteByte(ch)
			p.i++
		}
	case c == 't' && strings.HasPrefix(string(p.b[p.i:]), "true"):
		p.i += 4
		return jval{kind: "bool"}, nil
	case c == 'f' && strings.HasPrefix(string(p.b[p.i:]), "false"):
		p.i += 5
		return jval{kind: "bool"}, nil
	case c == 'n' && strings.HasPrefix(string(p.b[p.i:]), "null"):
		p.i += 4
		return jval{kind: "null"}, nil
	case c == '-' || (c >= '0' && c <= '9'):
		st := p.i
		for p.i < len(p.b) && strings.ContainsRune("+-0123456789.eE", rune(p.b[p.i])) {
			p.i++
		}
		return jval{kind: "number", str: string(p.b[st:p.i]), esc: true}, nil
	}
	return jval{}, fmt.Errorf("unexpected byte")
}

type chanID struct{ port, channel string }

// classifyMetadata reads metadata as the documented structure
// {"perm_channels":[{"port_id":"…","channel_id":"…"},…]}.
//
//	documented:   exact keys, right types -> the listed channels
//	undocumented: certainly not that structure (not a JSON object, unknown key, wrong type, trailing data, no perm_channels key)
//	grey:         anything the documentation does not settle (differently-cased or duplicate keys, escapes, parser disagreement)
func classifyMetadata(md []byte) (class string, list []chanID) {
	p := &jparser{b: md}
	v, err := p.value(0)
	if err == nil {
		p.ws()
		if p.i != len(p.b) {
			err = fmt.Errorf("trailing data")
		}
	}
	goValid := json.Valid(md)
	if err != nil {
		if goValid {
			return "grey", nil // the reference reader is stricter than the JSON grammar here
		}
		return "undocumented", nil
	}
	if !goValid {
		return "grey", nil
	}
	if v.kind != "object" {
		return "undocumented", nil
	}
	hasExact, n := false, 0
	for _, m := range v.obj {
		if m.keyEsc {
			return "grey", nil
		}
		if strings.EqualFold(m.key, "perm_channels") {
			n++
			if m.key == "perm_channels" {
				hasExact = true
			}
		}
	}
	if n == 0 {
		return "undocumented", nil // no channels are listed at all
	}
	if n > 1 || !hasExact {
		return "grey", nil
	}
	if len(v.obj) != 1 {
		return "undocumented", nil // unknown top-level field
	}
	pc := v.obj[0].val
	if pc.kind == "null" {
		return "documented", nil
	}
	if pc.kind != "array" {
		return "undocumented", nil
	}
	for _, el := range pc.arr {
		if el.kind == "null" {
			return "grey", nil
		}
		if el.kind != "object" {
			return "undocumented", nil
		}
		var id chanID
		seen := map[string]int{}
		for _, m := range el.obj {
			if m.keyEsc {
				return "grey", nil
			}
			lk := strings.ToLower(m.key)
			if lk != "port_id" && lk != "channel_id" {
				return "undocumented", nil
			}
			seen[lk]++
			if m.key != lk || seen[lk] > 1 {
				return "grey", nil
			}
			if m.val.kind == "null" {
				return "grey", nil
			}
			if m.val.kind != "string" {
				return "undocumented", nil
			}
			if m.val.esc {
				return "grey", nil
			}
			if lk == "port_id" {
				id.port = m.val.str
			} else {
				id.channel = m.val.str
			}
		}
		list = append(list, id)
	}
	return "documented", list
}

// ---- metadata grammar ------------------------------------------------------------------------------

// channel ids are unique per port only: channel-0 and channel-1 exist under two ports
var c19Channels = []chanID{{"transfer", "channel-0"}, {"transfer", "channel-1"}, {"transfer", "channel-2"}, {"nft-transfer", "channel-3"}, {"transfer", "channel-4"},
	{"nft-transfer", "channel-0"}, {"icqhost", "channel-1"}}

func genMetadata(rt *rapid.T) (string, []byte) {
	el := func(c chanID) string {
		return fmt.Sprintf(`{"port_id":%q,"channel_id":%q}`, c.port, c.channel)
	}
	list := func() string {
		n := rapid.IntRange(0, 3).Draw(rt, "nch")
		var parts []string
		for i := 0; i < n; i++ {
			parts = append(parts, el(c19Channels[rapid.IntRange(0, len(c19Channels)-1).Draw(rt, "ch")]))
		}
		sep := rapid.SampledFrom([]string{",", ", ", " ,\n "}).Draw(rt, "sep")
		return "[" + strings.Join(parts, sep) + "]"
	}
	kind := drawWeighted(rt, "mdkind", []weighted{{"valid", 12}, {"empty", 2}, {"plain-json", 2}, {"unknown-top", 2}, {"unknown-nested", 2}, {"dup-key", 2}, {"case-key", 2}, {"case-key-both", 1},
		{"nested-case", 2}, {"escaped-key", 2}, {"escaped-value", 1}, {"wrong-type", 3}, {"null", 1}, {"array-top", 1}, {"string-top", 1}, {"trailing", 2}, {"non-json", 2}, {"big", 1}, {"legacy-bytes", 1}, {"padded-id", 2}, {"valid-long", 2}})
	switch kind {
	case "valid-long":
		// the documented structure, stretched with insignificant white space to just under the 5120 bytes a message may carry
		body := `{"perm_channels":` + list() + `}`
		pad := rapid.IntRange(4100, 5118).Draw(rt, "longTo") - len(body)
		if pad < 0 {
			pad = 0
		}
		return kind, []byte(`{` + strings.Repeat(" ", pad) + body[1:])
	case "padded-id":
		// identifiers with white space around them name other (non-existent) channels, not the trimmed ones
		ch := c19Channels[rapid.IntRange(0, len(c19Channels)-1).Draw(rt, "padch")]
		pad := rapid.SampledFrom([]string{" ", "\t", "  "}).Draw(rt, "pad")
		switch rapid.IntRange(0, 3).Draw(rt, "padwhere") {
		case 0:
			ch.port += pad
		case 1:
			ch.port = pad + ch.port
		case 2:
			ch.channel += pad
		default:
			ch.channel = pad + ch.channel
		}
		return kind, []byte(`{"perm_channels":[` + el(ch) + `]}`)
	case "valid":
		return kind, []byte(`{"perm_channels":` + list() + `}`)
	case "empty":
		return kind, nil
	case "legacy-bytes":
		return kind, []byte{1, 2, 3}
	case "plain-json":
		return kind, []byte(`{"name":"minitia","website":"x"}`)
	case "unknown-top":
		return kind, []byte(`{"perm_channels":` + list() + `,"extra":1}`)
	case "unknown-nested":
		return kind, []byte(`{"perm_channels":[{"port_id":"transfer","channel_id":"channel-0","foo":"bar"}]}`)
	case "dup-key":
		return kind, []byte(`{"perm_channels":` + list() + `,"perm_channels":` + list() + `}`)
	case "case-key":
		return kind, []byte(`{"` + rapid.SampledFrom([]string{"Perm_Channels", "PERM_CHANNELS", "perm_Channels"}).Draw(rt, "ck") + `":` + list() + `}`)
	case "case-key-both":
		return kind, []byte(`{"perm_channels":` + list() + `,"PERM_CHANNELS":` + list() + `}`)
	case "escaped-key":
		// the documented key spelled with a JSON escape: the same key for every JSON reader
		return kind, []byte(`{"` + rapid.SampledFrom([]string{`perm\u005fchannels`, `\u0070erm_channels`, `perm_channel\u0073`, `perm\u005Fchannels`}).Draw(rt, "ek") + `":` + list() + `}`)
	case "escaped-value":
		c := c19Channels[rapid.IntRange(0, len(c19Channels)-1).Draw(rt, "ch")]
		return kind, []byte(`{"perm_channels":[{"port_id":"` + strings.Replace(c.port, "t", `\u0074`, 1) + `","channel_id":"` + strings.Replace(c.channel, "-", `\u002d`, 1) + `"}]}`)
	case "nested-case":
		return kind, []byte(`{"perm_channels":[{"Port_ID":"transfer","channel_id":"channel-1"}]}`)
	case "wrong-type":
		return kind, []byte(rapid.SampledFrom([]string{`{"perm_channels":"x"}`, `{"perm_channels":5}`, `{"perm_channels":{"a":1}}`, `{"perm_channels":["transfer/channel-0"]}`,
			`{"perm_channels":[{"port_id":5,"channel_id":"channel-0"}]}`, `{"perm_channels":[[]]}`, `{"perm_channels":true}`}).Draw(rt, "wt"))
	case "null":
		return kind, []byte(`{"perm_channels":null}`)
	case "array-top":
		return kind, []byte(`[{"perm_channels":` + list() + `}]`)
	case "string-top":
		return kind, []byte(`"perm_channels"`)
	case "trailing":
		return kind, []byte(`{"perm_channels":` + list() + `}` + rapid.SampledFrom([]string{" x", `{"perm_channels":[]}`, ",", "\x00"}).Draw(rt, "trail"))
	case "non-json":
		return kind, rapid.SliceOfN(rapid.Byte(), 1, 40).Draw(rt, "bytes")
	case "big":
		return kind, []byte(`{"perm_channels":` + list() + `,"pad":"` + strings.Repeat("x", 5200) + `"}`)
	}
	panic(kind)
}

// ---- the state machine ---------------------------------------------------------------------------------

type c19Bridge struct {
	id         uint64
	proposer   string
	challenger string
	metadata   []byte
	// heldAtListing: the channels the bridge's challenger administered right after the bridge's metadata was last
	// accepted - whatever list the chain read out of metadata the documentation does not settle is among them
	heldAtListing map[chanID]bool
}

func heldBy(st map[chanID]chanState, who string) map[chanID]bool {
	m := map[chanID]bool{}
	for c, s := range st {
		if s.admin == who {
			m[c] = true
		}
	}
	return m
}

type c19World struct {
	e       *henv.L1
	users   []henv.User
	bridges []*c19Bridge
	log     []string
}

func (w *c19World) logf(f string, a ...interface{}) { w.log = append(w.log, fmt.Sprintf(f, a...)) }

type chanState struct {
	exists bool
	seq    uint64
	admin  string
}

func (w *c19World) chanStates() map[chanID]chanState {
	out := map[chanID]chanState{}
	for _, c := range c19Channels {
		seq, ok := w.e.Chan.GetNextSequenceSend(w.e.Ctx, c.port, c.channel)
		out[c] = chanState{exists: ok, seq: seq, admin: w.e.Perm.Admin(w.e.Ctx, c.port, c.channel)}
	}
	// plus whatever else is in the admin table
	for k, a := range w.e.Perm.Table(w.e.Ctx) {
		parts := strings.SplitN(k, "\x00", 2)
		id := chanID{parts[0], parts[1]}
		if _, ok := out[id]; !ok {
			out[id] = chanState{admin: a}
		}
	}
	return out
}

func renderStates(m map[chanID]chanState) string {
	var xs []string
	for c, s := range m {
		xs = append(xs, fmt.Sprintf("%s/%s{exists=%v seq=%d admin=%s}", c.port, c.channel, s.exists, s.seq, short(s.admin)))
	}
	sort.Strings(xs)
	return strings.Join(xs, " ")
}

// judge checks one create / update-metadata message that offered metadata md for a bridge with
// the given challenger.
func c19JudgeListing(op string, md []byte, challenger string, pre, post map[chanID]chanState, ok bool, tooBig bool) (string, error) {
	class, list := classifyMetadata(md)
	changed := []chanID{}
	for c, s := range post {
		if pre[c].admin != s.admin {
			changed = append(changed, c)
		}
	}
	if tooBig {
		if ok || len(changed) > 0 {
			return class, fmt.Errorf("metadata above the size limit: ok=%v, %d admin entries changed", ok, len(changed))
		}
		return class, nil
	}
	if !ok && len(changed) > 0 {
		return class, fmt.Errorf("failed %s changed channel admins: %v", op, changed)
	}
	// whatever the class: an admin entry only ever changes to this bridge's challenger, and only for a
	// channel that existed, had never sent a packet and had no admin
	for _, c := range changed {
		p := pre[c]
		if post[c].admin != challenger {
			return class, fmt.Errorf("%s made %s admin of %s/%s, the bridge's challenger is %s", op, post[c].admin, c.port, c.channel, challenger)
		}
		if !p.exists || p.seq != 1 || p.admin != "" {
			return class, fmt.Errorf("%s captured channel %s/%s which was in state exists=%v next-send-seq=%d admin=%q", op, c.port, c.channel, p.exists, p.seq, p.admin)
		}
	}
	switch class {
	case "undocumented":
		if len(changed) > 0 {
			return class, fmt.Errorf("metadata that is not the documented structure touched channel permissions: %v", changed)
		}
		if !ok {
			return class, fmt.Errorf("%s with metadata that lists no channels failed", op)
		}
	case "documented":
		strictAll, looseAll, dup := true, true, false
		seen := map[chanID]bool{}
		for _, c := range list {
			if seen[c] {
				dup = true
			}
			seen[c] = true
			p := pre[c]
			strict := p.exists && p.seq == 1 && p.admin == ""
			if !strict {
				strictAll = false
			}
			if !(strict || p.admin == challenger) {
				looseAll = false
			}
		}
		if ok {
			if !looseAll {
				return class, fmt.Errorf("%s succeeded although a listed channel was missing, in use or administered by someone else (before: %s)", op, renderStates(pre))
			}
			for _, c := range list {
				if post[c].admin != challenger {
					return class, fmt.Errorf("%s succeeded but listed channel %s/%s has admin %q, challenger is %s", op, c.port, c.channel, post[c].admin, challenger)
				}
			}
			for _, c := range changed {
				if !seen[c] {
					return class, fmt.Errorf("%s changed the admin of %s/%s which the metadata does not list", op, c.port, c.channel)
				}
			}
		} else if strictAll && !dup {
			// (the statement says "only if": a refusal where a listed channel is already administered by the
			// challenger is stricter than necessary, not a violation - creation does refuse it, for instance)
			return class, fmt.Errorf("%s failed although every listed channel exists, never sent a packet and has no admin", op)
		}
	}
	return class, nil
}

func TestC19Rapid(t *testing.T) {
	rec := evid.For("C19")
	runRapid(t, 3000, 80000, func(rt *rapid.T) {
		c := rec.Begin()
		w := &c19World{e: henv.NewL1(henv.L1Options{})}
		for i := 0; i < 4; i++ {
			w.users = append(w.users, henv.MakeUser(fmt.Sprintf("c19-%d", i)))
		}
		// channel fixtures
		for _, ch := range c19Channels {
			switch rapid.SampledFrom([]string{"fresh", "fresh", "fresh", "missing", "in-use"}).Draw(rt, "chstate") {
			case "fresh":
				w.e.Chan.Set(w.e.Ctx, ch.port, ch.channel, 1)
			case "in-use":
				w.e.Chan.Set(w.e.Ctx, ch.port, ch.channel, uint64(rapid.IntRange(2, 9).Draw(rt, "seq")))
			}
			if rapid.IntRange(0, 5).Draw(rt, "preadmin") == 0 {
				_ = w.e.Perm.SetAdmin(w.e.Ctx, ch.port, ch.channel, w.users[rapid.IntRange(0, 3).Draw(rt, "admin")].Addr)
			}
		}
		w.logf("channels: %s", renderStates(w.chanStates()))
		nt := false
		shape := ""
		repeatSteps(rt, 12, func(i int) {
			fail := func(f string, a ...interface{}) {
				rt.Fatalf("C19 violated at step %d: %s\nhistory:\n%s", i, fmt.Sprintf(f, a...), strings.Join(w.log, "\n"))
			}
			pre := w.chanStates()
			op := drawWeighted(rt, "op", []weighted{{"create", 4}, {"metadata", 5}, {"challenger", 3}, {"use-channel", 1}, {"other-role", 2}, {"new-chain", 1}})
			if len(w.bridges) == 0 {
				op = "create"
			}
			if op == "create" && len(w.bridges) >= 3 {
				op = "metadata"
			}
			switch op {
			case "use-channel":
				// a channel sends a packet (its next send sequence grows)
				ch := c19Channels[rapid.IntRange(0, len(c19Channels)-1).Draw(rt, "usech")]
				if s := pre[ch]; s.exists {
					w.e.Chan.Set(w.e.Ctx, ch.port, ch.channel, s.seq+1)
					w.logf("channel %s/%s sends a packet", ch.port, ch.channel)
				}
				return
			case "new-chain":
				// a new chain is started from the exported bridge state (accounts, balances, bridges, channels with their
				// send sequences) while the channel-permission module starts empty: the bridges keep their lists, and the
				// next challenger update of a bridge still hands its listed channels to the new challenger
				old := w.e
				n := henv.NewL1(henv.L1Options{})
				n.Ctx = n.Ctx.WithBlockHeight(old.Ctx.BlockHeight()).WithBlockTime(old.Ctx.BlockTime())
				n.AK.InitGenesis(n.Ctx, *old.AK.ExportGenesis(old.Ctx))
				n.BK.InitGenesis(n.Ctx, old.BK.ExportGenesis(old.Ctx))
				for ch, st := range pre {
					if st.exists {
						n.Chan.Set(n.Ctx, ch.port, ch.channel, st.seq)
					}
				}
				var gs ophosttypes.GenesisState
				old.Enc.Marshaler.MustUnmarshalJSON(old.Enc.Marshaler.MustMarshalJSON(old.K.ExportGenesis(old.Ctx)), &gs)
				n.K.InitGenesis(n.Ctx, &gs)
				w.e = n
				w.logf("new chain from the exported bridge state, channel permissions empty | %s", renderStates(w.chanStates()))
				c.Class("new-chain-from-exported-bridges-with-empty-channel-permissions")
				shape += "g"
				return
			case "other-role":
				// the other role messages of a bridge (proposer rotation, batch info): they say nothing about channels,
				// so no admin changes - and the bridge's list is still the one later challenger updates hand over
				b := w.bridges[rapid.IntRange(0, len(w.bridges)-1).Draw(rt, "bridge")]
				var r henv.Result
				if rapid.Bool().Draw(rt, "proposerOrBatch") {
					nu := w.users[rapid.IntRange(0, 3).Draw(rt, "newprop")]
					r = w.e.Deliver(ophosttypes.NewMsgUpdateProposer(rapid.SampledFrom([]string{b.proposer, w.e.Authority}).Draw(rt, "psigner"), b.id, nu.Str))
					w.logf("update-proposer(bridge=%d -> %s) -> %v", b.id, short(nu.Str), r.Err)
					if r.OK() {
						b.proposer = nu.Str
					}
				} else {
					bi := ophosttypes.BatchInfo{Submitter: w.users[rapid.IntRange(0, 3).Draw(rt, "submitter")].Str, ChainType: ophosttypes.BatchInfo_CHAIN_TYPE_CELESTIA}
					r = w.e.Deliver(ophosttypes.NewMsgUpdateBatchInfo(rapid.SampledFrom([]string{b.proposer, w.e.Authority}).Draw(rt, "bsigner"), b.id, bi))
					w.logf("update-batch-info(bridge=%d) -> %v", b.id, r.Err)
				}
				if !r.OK() {
					fail("a role update by the proposer or the authority failed: %v", r.Err)
				}
				for ch, s := range w.chanStates() {
					if pre[ch].admin != s.admin {
						fail("a proposer / batch-info update of bridge %d changed the admin of %s/%s from %q to %q", b.id, ch.port, ch.channel, pre[ch].admin, s.admin)
					}
				}
				if cfg, err := w.e.K.GetBridgeConfig(w.e.Ctx, b.id); err != nil || string(cfg.Metadata) != string(b.metadata) {
					fail("after a proposer / batch-info update the stored metadata of bridge %d is %q, the last accepted metadata was %q", b.id, truncStr(string(cfg.Metadata), 100), truncStr(string(b.metadata), 100))
				}
				c.Class("proposer-or-batch-info-update")
				shape += "o"
			case "create":
				prop, chal := w.users[rapid.IntRange(0, 3).Draw(rt, "prop")], w.users[rapid.IntRange(0, 3).Draw(rt, "chal")]
				if len(w.bridges) > 0 && rapid.Bool().Draw(rt, "sameChallengerAsAnotherBridge") {
					// one operator challenges several bridges
					for _, u := range w.users {
						if u.Str == w.bridges[0].challenger {
							chal = u
						}
					}
				}
				kind, md := genMetadata(rt)
				cfg := henv.DefaultBridgeConfig(prop.Str, chal.Str, time.Minute)
				cfg.Metadata = md
				r := w.e.Deliver(ophosttypes.NewMsgCreateBridge(prop.Str, cfg))
				post := w.chanStates()
				class, err := c19JudgeListing("create-bridge", md, chal.Str, pre, post, r.OK(), len(md) > ophosttypes.MaxMetadataLength)
				w.logf("create(challenger=%s metadata[%s/%s]=%q) -> %v | %s", short(chal.Str), kind, class, truncStr(string(md), 120), r.Err, renderStates(post))
				if err != nil {
					fail("%v", err)
				}
				if r.OK() {
					w.bridges = append(w.bridges, &c19Bridge{id: r.Resp.(*ophosttypes.MsgCreateBridgeResponse).BridgeId, proposer: prop.Str, challenger: chal.Str, metadata: md, heldAtListing: heldBy(post, chal.Str)})
				}
				c.Class("metadata/" + kind)
				c.Class("class/" + class)
				shape += "c" + kind[:2] + fmt.Sprint(r.OK())
				if c19Interesting(md, pre, class) {
					nt = true
				}
			case "metadata":
				b := w.bridges[rapid.IntRange(0, len(w.bridges)-1).Draw(rt, "bridge")]
				kind, md := genMetadata(rt)
				switch rapid.IntRange(0, 5).Draw(rt, "resubmit") {
				case 0:
					kind, md = "resubmit-current", append([]byte{}, b.metadata...) // the stored metadata, byte for byte
				case 1:
					// the list of another bridge (bridges of one challenger may share channels)
					kind, md = "adopt-list-of-another-bridge", append([]byte{}, w.bridges[rapid.IntRange(0, len(w.bridges)-1).Draw(rt, "otherBridge")].metadata...)
				}
				signer := b.proposer
				if rapid.IntRange(0, 9).Draw(rt, "gov") == 0 {
					signer = w.e.Authority
				}
				r := w.e.Deliver(ophosttypes.NewMsgUpdateMetadata(signer, b.id, md))
				post := w.chanStates()
				class, err := c19JudgeListing("update-metadata", md, b.challenger, pre, post, r.OK(), len(md) > ophosttypes.MaxMetadataLength)
				w.logf("update-metadata(bridge=%d challenger=%s metadata[%s/%s]=%q) -> %v | %s", b.id, short(b.challenger), kind, class, truncStr(string(md), 120), r.Err, renderStates(post))
				if err != nil {
					fail("%v", err)
				}
				if r.OK() {
					b.metadata = md
					b.heldAtListing = heldBy(post, b.challenger)
				}
				c.Class("metadata/" + kind)
				c.Class("class/" + class)
				shape += "m" + kind[:2] + fmt.Sprint(r.OK())
				if c19Interesting(md, pre, class) {
					nt = true
				}
			case "challenger":
				b := w.bridges[rapid.IntRange(0, len(w.bridges)-1).Draw(rt, "bridge")]
				nu := w.users[rapid.IntRange(0, 3).Draw(rt, "newchal")]
				if rapid.IntRange(0, 3).Draw(rt, "sameChallenger") == 0 {
					// an update that names the address already stored: the listed channels are (re)claimed all the same
					for _, u := range w.users {
						if u.Str == b.challenger {
							nu = u
						}
					}
				}
				signer := b.challenger
				if rapid.IntRange(0, 4).Draw(rt, "gov") == 0 {
					signer = w.e.Authority
				}
				r := w.e.Deliver(ophosttypes.NewMsgUpdateChallenger(signer, b.id, nu.Str))
				post := w.chanStates()
				class, list := classifyMetadata(b.metadata)
				w.logf("update-challenger(bridge=%d %s -> %s, metadata class %s) -> %v | %s", b.id, short(b.challenger), short(nu.Str), class, r.Err, renderStates(post))
				listed := map[chanID]bool{}
				for _, x := range list {
					listed[x] = true
				}
				for ch, s := range post {
					if pre[ch].admin == s.admin {
						continue
					}
					if !r.OK() {
						fail("failed update-challenger changed the admin of %s/%s", ch.port, ch.channel)
					}
					if s.admin != nu.Str {
						fail("update-challenger made %s admin of %s/%s, the new challenger is %s", s.admin, ch.port, ch.channel, nu.Str)
					}
					if class == "documented" && !listed[ch] {
						fail("update-challenger of bridge %d changed the admin of %s/%s which its metadata does not list", b.id, ch.port, ch.channel)
					}
					if class == "undocumented" {
						fail("update-challenger of bridge %d whose metadata is not the documented structure touched %s/%s", b.id, ch.port, ch.channel)
					}
					if class == "grey" && !b.heldAtListing[ch] {
						// whichever list the chain read out of this metadata when it accepted it, the challenger held those
						// channels afterwards; a channel it did not hold then cannot be one of the bridge's listed channels
						fail("update-challenger of bridge %d moved %s/%s, which the bridge's challenger did not administer when the metadata was accepted (the list read then and the list read now differ)", b.id, ch.port, ch.channel)
					}
				}
				if r.OK() && class == "documented" {
					for _, ch := range list {
						if post[ch].admin != nu.Str {
							fail("after update-challenger the listed channel %s/%s has admin %q, new challenger is %s", ch.port, ch.channel, post[ch].admin, nu.Str)
						}
					}
				}
				if !r.OK() && class != "grey" {
					fail("update-challenger by %s failed: %v", short(signer), r.Err)
				}
				if r.OK() {
					b.challenger = nu.Str
				}
				shape += "h"
				c.Class("update-challenger")
			}
		})
		if nt {
			c.NonTrivial()
			c.Shape(shape)
		}
		c.Sample(func() interface{} { return map[string]interface{}{"history": w.log} })
		c.Done()
	})
}

// c19Interesting: a listed channel is in use or taken by somebody else, or the metadata is
// grey/undocumented but mentions perm_channels.
func c19Interesting(md []byte, pre map[chanID]chanState, class string) bool {
	if class != "documented" {
		return strings.Contains(strings.ToLower(string(md)), "perm_channels")
	}
	_, list := classifyMetadata(md)
	for _, c := range list {
		p := pre[c]
		if !p.exists || p.seq != 1 || p.admin != "" {
			return true
		}
	}
	return false
}

var _ = sdk.AccAddress{}
