package props

import (
	"fmt"
	"strings"
	"testing"
	"time"

	"cosmossdk.io/math"
	cryptotypes "github.com/cosmos/cosmos-sdk/crypto/types"
	sdk "github.com/cosmos/cosmos-sdk/types"
	banktypes "github.com/cosmos/cosmos-sdk/x/bank/types"
	"pgregory.net/rapid"

	opchildtypes "github.com/initia-labs/OPinit/x/opchild/types"
	ophosttypes "github.com/initia-labs/OPinit/x/ophost/types"

	"verifharness/evid"
	"verifharness/henv"
	"verifharness/ref"
)

type c08Wd struct {
	ev   l2Withdrawal
	t    wd
	paid bool
}

type c08Out struct {
	o        *mOutput
	from, to int // interval of recorded withdrawals [from,to)
}

type c08World struct {
	unclaimable string // set when L2 recorded a withdrawal that the commitment format cannot express
	tc          *twoChain
	denoms      []string
	pending     []*pendingDeposit // emitted on L1, not yet finalized on L2
	relayed     []*pendingDeposit // already finalized (for duplicate deliveries)
	wds         []*c08Wd
	outs        []*c08Out
	l2Block     uint64
	log         []string
	refunds     int
	userWds     int
	deletes     int
	initial     map[string]math.Int
}

func (w *c08World) logf(f string, a ...interface{}) { w.log = append(w.log, fmt.Sprintf(f, a...)) }

func (w *c08World) committed() int {
	if len(w.outs) == 0 {
		return 0
	}
	return w.outs[len(w.outs)-1].to
}

// invariant: escrow == L2 supply + deposits in flight + withdrawals recorded and unpaid.
func (w *c08World) invariant() error {
	tc := w.tc
	for _, d := range w.denoms {
		escrow := tc.l1.Balance(ophosttypes.BridgeAddress(tc.bridgeID), d)
		l2d := tcL2Denom(tc, d)
		sum := tc.l2.Supply(l2d)
		for _, p := range w.pending {
			if p.L1Denom == d {
				sum = sum.Add(p.Amount)
			}
		}
		for _, x := range w.wds {
			if !x.paid && x.ev.BaseDenom == d {
				sum = sum.Add(x.ev.Amount)
			}
		}
		if !escrow.Equal(sum) {
			return fmt.Errorf("denom %s: L1 escrow %s != L2 supply %s + in-flight deposits + unpaid withdrawals = %s", d, escrow, tc.l2.Supply(l2d), sum)
		}
	}
	return nil
}

func (w *c08World) holdings(d string) math.Int {
	tc := w.tc
	total := math.ZeroInt()
	for _, u := range tc.users {
		total = total.Add(tc.l1.Balance(u.Addr, d)).Add(tc.l2.Balance(u.Addr, tcL2Denom(tc, d)))
	}
	return total
}

func (w *c08World) relayOne(p *pendingDeposit) henv.Result {
	r := w.tc.l2.Deliver(relayMsg(w.tc.executors[0].Str, p))
	if r.OK() {
		for _, x := range parseWithdrawalEvents(r.Events) {
			w.record(x, "refund")
		}
	}
	return r
}

func (w *c08World) record(x l2Withdrawal, kind string) {
	t, ok := w.tc.leafOf(x)
	if !ok {
		// (single deposits are bounded by L1; balances add up, and L2 has to refuse what cannot be committed)
		w.unclaimable = fmt.Sprintf("L2 recorded a %s withdrawal #%d of %s%s: the amount does not fit the 64-bit commitment format, it can never be paid on L1 and the escrow keeps coins that no L2 token stands for", kind, x.Seq, x.Amount, x.Denom)
		return
	}
	w.wds = append(w.wds, &c08Wd{ev: x, t: t})
	if kind == "refund" {
		w.refunds++
	} else {
		w.userWds++
	}
}

// cut proposes an output over the withdrawals recorded since the last output.
func (w *c08World) cut() error {
	from, to := w.committed(), len(w.wds)
	var ts []wd
	for _, x := range w.wds[from:to] {
		ts = append(ts, x.t)
	}
	w.l2Block += 10
	var o *mOutput
	var r henv.Result
	if len(ts) == 0 {
		// an interval without withdrawals: the executor still submits an output (empty tree)
		o = &mOutput{Version: 0, BlockHash: ref32(byte(w.l2Block))}
		o.Root = outRoot(o)
		next, _ := w.tc.l1.K.GetNextOutputIndex(w.tc.l1.Ctx, w.tc.bridgeID)
		r = w.tc.l1.Deliver(ophosttypes.NewMsgProposeOutput(w.tc.proposer.Str, w.tc.bridgeID, next, w.l2Block, o.Root[:]))
		o.Index, o.At = next, w.tc.l1.Ctx.BlockTime()
	} else {
		o, r = w.tc.proposeTree(ts, w.l2Block)
	}
	if !r.OK() {
		return fmt.Errorf("propose rejected: %v", r.Err)
	}
	w.outs = append(w.outs, &c08Out{o: o, from: from, to: to})
	return nil
}

func (w *c08World) final(o *c08Out) bool {
	return !w.tc.l1.Ctx.BlockTime().Before(o.o.At.Add(w.tc.period))
}

func TestC08Rapid(t *testing.T) {
	rec := evid.For("C08")
	runRapid(t, 800, 15000, func(rt *rapid.T) {
		c := rec.Begin()
		tc := newTwoChain(tcOpts{nExecutors: 1, otherFirst: rapid.IntRange(0, 1).Draw(rt, "otherFirst"), otherAfter: rapid.IntRange(0, 1).Draw(rt, "otherAfter")})
		w := &c08World{tc: tc, denoms: []string{"uinit", "uusdc"}, initial: map[string]math.Int{}}
		for _, u := range tc.users {
			tc.l2.Fund(u.Addr, coinOf("stake", 10))
		}
		if rapid.IntRange(0, 2).Draw(rt, "caseTwin") == 0 {
			// a third L1 asset whose denom differs from the first only in the case of its letters
			// (bank denoms are case sensitive: ibc/27AB.. and ibc/27ab.. are two assets)
			w.denoms = append(w.denoms, "uINIT")
			for _, u := range tc.users {
				tc.l1.Fund(u.Addr, coinOf("uINIT", 1_000_000_000))
			}
			c.Class("l1-denoms-that-differ-only-in-case")
		}
		if rapid.IntRange(0, 3).Draw(rt, "presetMetadata") == 0 {
			// the L2 bank module already has display metadata for the bridged tokens (operator's bank genesis)
			for _, d := range w.denoms {
				presetBankMetadata(rt, tc.l2, tcL2Denom(tc, d))
			}
			c.Class("l2-bank-metadata-preset")
		}
		for _, d := range w.denoms {
			w.initial[d] = w.holdings(d)
		}
		fail := func(i int, err error) {
			rt.Fatalf("C08 violated at step %d: %v\nhistory:\n%s", i, err, strings.Join(w.log, "\n"))
		}
		repeatSteps(rt, 50, func(i int) {
			op := drawWeighted(rt, "op", []weighted{{"deposit", 7}, {"relay", 7}, {"withdraw", 6}, {"transfer", 2}, {"cut", 4}, {"advance", 4}, {"claim", 6}, {"challenge", 2}, {"dup-relay", 2}, {"neighbour", 2}, {"reverted-relay", 2}})
			switch op {
			case "neighbour":
				// ordinary life on another bridge of the same L1 (outputs proposed, one challenged)
				if len(tc.neighbours) == 0 {
					return
				}
				id := tc.neighbours[rapid.IntRange(0, len(tc.neighbours)-1).Draw(rt, "neighbour")]
				w.logf("%s", tc.neighbourChallenge(id, uint64(rapid.IntRange(1, 2).Draw(rt, "nfrom"))))
				c.Class("activity-on-a-neighbouring-bridge")
			case "deposit":
				from := tc.users[rapid.IntRange(0, 4).Draw(rt, "from")]
				recipient := tc.users[rapid.IntRange(0, 4).Draw(rt, "to")]
				to := recipient.Str
				var data []byte
				if rapid.IntRange(0, 4).Draw(rt, "badrecipient") == 0 {
					to = rapid.SampledFrom([]string{"nobody", "init1xyz", " "}).Draw(rt, "badto")
				}
				kind := ""
				d := rapid.SampledFrom(w.denoms).Draw(rt, "denom")
				amt := int64(rapid.IntRange(0, 100000).Draw(rt, "amt"))
				if rapid.IntRange(0, 14).Draw(rt, "zeroAmt") == 0 {
					amt = 0 // L1 accepts deposits of nothing (they carry a hook or create the account)
				}
				huge := rapid.IntRange(0, 11).Draw(rt, "hugeAmt") == 0
				if hk := rapid.IntRange(0, 12).Draw(rt, "hook"); hk < 9 && to == recipient.Str {
					num, seq := accInfo(tc.l2, recipient)
					l2d := tcL2Denom(tc, d)
					send := func(v int64) sdk.Msg {
						return banktypes.NewMsgSend(recipient.Addr, tc.users[(rapid.IntRange(0, 4).Draw(rt, "hookto"))].Addr, sdk.NewCoins(sdk.NewCoin(l2d, math.NewInt(v))))
					}
					wdraw := opchildtypes.NewMsgInitiateTokenWithdrawal(recipient.Str, tc.users[rapid.IntRange(0, 4).Draw(rt, "hookwto")].Str, sdk.NewCoin(l2d, math.OneInt()))
					var msgs []sdk.Msg
					switch hk {
					case 0:
						kind, msgs = "hook-fail", []sdk.Msg{send(1 << 50)} // the hook overspends: deposit is refunded
					case 1, 2:
						kind, msgs = "hook-ok", []sdk.Msg{send(1)}
					case 3:
						kind, msgs = "hook-withdraws", []sdk.Msg{send(1), wdraw}
					case 4:
						kind, msgs = "hook-withdraws-then-fails", []sdk.Msg{wdraw, send(1 << 50)}
					case 5:
						kind, msgs = "hook-withdraws-then-sends", []sdk.Msg{wdraw, send(1)}
					case 6:
						// one message that writes before it fails: the bank debits a transfer coin by coin, the bridged
						// coin first, and the second coin cannot be afforded
						kind, msgs = "hook-single-message-fails-half-way", []sdk.Msg{banktypes.NewMsgSend(recipient.Addr, tc.users[0].Addr, sdk.NewCoins(sdk.NewCoin(l2d, math.OneInt()), sdk.NewCoin("stake", math.NewInt(1<<50))))}
					case 8:
						// a withdrawal followed by more transfers than the hook's gas allowance pays for
						msgs = []sdk.Msg{wdraw}
						for k := 0; k < 60; k++ {
							msgs = append(msgs, banktypes.NewMsgSend(recipient.Addr, tc.users[0].Addr, sdk.NewCoins(coinOf("stake", 1))))
						}
						kind = "hook-withdraws-then-runs-out-of-gas"
					case 7:
						// one message that burns before it fails: native tokens cannot be withdrawn
						kind, msgs = "hook-withdraws-native-token", []sdk.Msg{opchildtypes.NewMsgInitiateTokenWithdrawal(recipient.Str, "l1-target", coinOf("stake", 2))}
					}
					data = signTx(tc.l2, msgs, []cryptotypes.PrivKey{recipient.Priv}, []uint64{num}, []uint64{seq}, henv.L2ChainID)
				}
				coin := coinOf(d, amt)
				if huge && data == nil {
					// 2^63 + k units: above the signed 64-bit range, inside the 64 bits the commitment format has
					coin = sdk.NewCoin(d, math.NewIntFromUint64(1<<63+uint64(amt)))
					tc.l1.Fund(from.Addr, coin)
					w.initial[d] = w.initial[d].Add(coin.Amount)
					c.Class("deposit-of-2^63-or-more")
				}
				r, p := tc.l1Deposit(from, to, coin, data)
				w.logf("L1 deposit %s from %s to %q %s -> %v", coin, short(from.Str), truncStr(to, 16), kind, r.Err)
				if p != nil {
					w.pending = append(w.pending, p)
				}
			case "relay":
				if len(w.pending) == 0 {
					return
				}
				p := w.pending[0]
				r := w.relayOne(p)
				if !r.OK() {
					fail(i, fmt.Errorf("faithful relay of deposit #%d failed on L2: %v", p.Seq, r.Err))
				}
				if resp, ok := r.Resp.(*opchildtypes.MsgFinalizeTokenDepositResponse); ok && resp.Result == opchildtypes.NOOP {
					fail(i, fmt.Errorf("faithful in-order relay of deposit #%d was answered NOOP (nothing minted, nothing refunded): the deposit is lost", p.Seq))
				}
				if w.unclaimable != "" {
					fail(i, fmt.Errorf("%s", w.unclaimable))
				}
				w.pending = w.pending[1:]
				w.relayed = append(w.relayed, p)
				w.logf("relay deposit #%d (%s%s to %q) -> refunds so far %d", p.Seq, p.Amount, p.L1Denom, truncStr(p.To, 16), w.refunds)
			case "reverted-relay":
				// the executor's transaction with the next relay is executed and then rolled back as a whole (a later
				// message of it failed, it ran out of gas, it was only simulated): nothing of it counts
				if len(w.pending) == 0 {
					return
				}
				p := w.pending[0]
				branchL2(tc.l2, func(b *henv.L2) {
					r := b.Deliver(relayMsg(tc.executors[0].Str, p))
					w.logf("relay of #%d inside a transaction that is rolled back -> %v", p.Seq, r.Err)
				})
				c.Class("relay-inside-a-rolled-back-transaction")
			case "dup-relay":
				// duplicates and out-of-order deliveries must not move value
				var p *pendingDeposit
				if len(w.relayed) > 0 && rapid.Bool().Draw(rt, "old") {
					p = w.relayed[rapid.IntRange(0, len(w.relayed)-1).Draw(rt, "which")]
				} else if len(w.pending) > 1 {
					p = w.pending[len(w.pending)-1]
				}
				if p != nil {
					r := tc.l2.Deliver(relayMsg(tc.executors[0].Str, p))
					w.logf("duplicate/early delivery of #%d -> %v", p.Seq, r.Err)
					if r.OK() {
						if resp := r.Resp.(*opchildtypes.MsgFinalizeTokenDepositResponse); resp.Result != opchildtypes.NOOP {
							fail(i, fmt.Errorf("a duplicate or early delivery of #%d was processed", p.Seq))
						}
					}
				}
			case "withdraw":
				u := tc.users[rapid.IntRange(0, 4).Draw(rt, "wu")]
				d := rapid.SampledFrom(w.denoms).Draw(rt, "wdenom")
				bal := tc.l2.Balance(u.Addr, tcL2Denom(tc, d))
				if !bal.IsPositive() {
					return
				}
				amt := math.NewInt(int64(rapid.IntRange(1, 50000).Draw(rt, "wamt")))
				if amt.GT(bal) || rapid.IntRange(0, 5).Draw(rt, "wholeBalance") == 0 {
					amt = bal // everything the account holds, at once
				}
				to := tc.users[rapid.IntRange(0, 4).Draw(rt, "wto")].Str
				if rapid.IntRange(0, 4).Draw(rt, "upper") == 0 {
					to = strings.ToUpper(to) // the all-uppercase spelling is a valid L1 address as well
				}
				r := tc.l2.Deliver(opchildtypes.NewMsgInitiateTokenWithdrawal(u.Str, to, sdk.NewCoin(tcL2Denom(tc, d), amt)))
				if r.OK() {
					for _, x := range parseWithdrawalEvents(r.Events) {
						w.record(x, "user")
					}
				}
				w.logf("L2 withdraw %s%s by %s to %s -> %v", amt, d, short(u.Str), short(to), r.Err)
				if w.unclaimable != "" {
					fail(i, fmt.Errorf("%s", w.unclaimable))
				}
			case "transfer":
				a, b := tc.users[rapid.IntRange(0, 4).Draw(rt, "ta")], tc.users[rapid.IntRange(0, 4).Draw(rt, "tb")]
				d := tcL2Denom(tc, rapid.SampledFrom(w.denoms).Draw(rt, "tdenom"))
				if bal := tc.l2.Balance(a.Addr, d); bal.IsPositive() {
					tc.l2.Deliver(banktypes.NewMsgSend(a.Addr, b.Addr, sdk.NewCoins(sdk.NewCoin(d, math.OneInt()))))
				}
			case "cut":
				if err := w.cut(); err != nil {
					fail(i, err)
				}
				w.logf("propose output %d over withdrawals [%d,%d)", len(w.outs), w.outs[len(w.outs)-1].from, w.outs[len(w.outs)-1].to)
			case "advance":
				d := rapid.SampledFrom([]time.Duration{time.Second, 5 * time.Second, tc.period, 2 * tc.period}).Draw(rt, "dt")
				tc.l1.Advance(d)
				w.logf("advance %v", d)
			case "challenge":
				// delete the newest non-final output; its withdrawals go into the next proposal
				if n := len(w.outs); n > 0 && !w.final(w.outs[n-1]) {
					idx := n
					if n > 1 && !w.final(w.outs[n-2]) && rapid.Bool().Draw(rt, "deeper") {
						idx = n - 1
					}
					r := tc.l1.Deliver(ophosttypes.NewMsgDeleteOutput(tc.chal.Str, tc.bridgeID, uint64(idx)))
					if !r.OK() {
						fail(i, fmt.Errorf("challenger could not delete non-final output %d: %v", idx, r.Err))
					}
					w.outs = w.outs[:idx-1]
					w.deletes++
					w.logf("challenge: delete outputs from %d", idx)
				}
			case "claim":
				if len(w.outs) == 0 || len(w.wds) == 0 {
					return
				}
				o := w.outs[rapid.IntRange(0, len(w.outs)-1).Draw(rt, "out")]
				if o.to == o.from {
					return
				}
				k := rapid.IntRange(o.from, o.to-1).Draw(rt, "which")
				x := w.wds[k]
				if !x.ev.Amount.IsPositive() {
					return
				}
				r := tc.l1.Deliver(claimMsg(tc.users[0].Str, x.t, o.o, o.o.Index, k-o.from))
				want := w.final(o) && !x.paid
				if r.OK() != want {
					fail(i, fmt.Errorf("claim of withdrawal #%d against output %d: accepted=%v, expected %v (final=%v paid=%v): %v", x.ev.Seq, o.o.Index, r.OK(), want, w.final(o), x.paid, r.Err))
				}
				if r.OK() {
					x.paid = true
				}
				w.logf("claim #%d -> %v", x.ev.Seq, r.Err)
			}
			if err := w.invariant(); err != nil {
				fail(i, err)
			}
		})
		// final drain
		for len(w.pending) > 0 {
			if r := w.relayOne(w.pending[0]); !r.OK() {
				fail(-1, fmt.Errorf("drain: relay failed: %v", r.Err))
			}
			w.pending = w.pending[1:]
		}
		if w.committed() < len(w.wds) {
			if err := w.cut(); err != nil {
				fail(-1, err)
			}
		}
		tc.l1.Advance(tc.period)
		for _, o := range w.outs {
			for k := o.from; k < o.to; k++ {
				x := w.wds[k]
				if !x.ev.Amount.IsPositive() {
					continue
				}
				first := tc.l1.Deliver(claimMsg(tc.users[1].Str, x.t, o.o, o.o.Index, k-o.from))
				if first.OK() == x.paid {
					fail(-1, fmt.Errorf("drain: claim of #%d (paid before=%v) accepted=%v: %v", x.ev.Seq, x.paid, first.OK(), first.Err))
				}
				x.paid = true
				if second := tc.l1.Deliver(claimMsg(tc.users[2].Str, x.t, o.o, o.o.Index, k-o.from)); second.OK() {
					fail(-1, fmt.Errorf("drain: second claim of #%d succeeded", x.ev.Seq))
				}
			}
		}
		if err := w.invariant(); err != nil {
			fail(-1, err)
		}
		for _, d := range w.denoms {
			esc, sup := tc.l1.Balance(ophosttypes.BridgeAddress(tc.bridgeID), d), tc.l2.Supply(tcL2Denom(tc, d))
			if !esc.Equal(sup) {
				fail(-1, fmt.Errorf("after the drain escrow %s != L2 supply %s (%s)", esc, sup, d))
			}
			if h := w.holdings(d); !h.Equal(w.initial[d]) {
				fail(-1, fmt.Errorf("users hold %s%s across both chains, started with %s", h, d, w.initial[d]))
			}
		}
		if w.refunds > 0 && w.userWds > 0 && w.deletes > 0 && len(w.outs) >= 2 {
			c.NonTrivial()
			c.Shape(fmt.Sprintf("r%d/u%d/d%d/o%d/w%d", w.refunds, w.userWds, w.deletes, len(w.outs), len(w.wds)))
		}
		c.Classf("refunds>0=%v", w.refunds > 0)
		c.Classf("deletes>0=%v", w.deletes > 0)
		c.Classf("outputs>=2=%v", len(w.outs) >= 2)
		c.Sample(func() interface{} { return map[string]interface{}{"history": w.log} })
		c.Done()
	})
}

func outRoot(o *mOutput) [32]byte {
	return ref.OutputRoot(o.Version, o.Storage[:], o.BlockHash)
}

// TestC08AccumulatedBalance (bounded): single deposits are bounded by L1, balances add up. A holder of more than
// 2^64-1 units of a bridged token asks for all of it at once: L2 refuses (the holder can withdraw in parts), or the
// recorded withdrawal would name an amount no L1 claim can carry while the coins are burnt.
func TestC08AccumulatedBalance(t *testing.T) {
	if cfgShard != 0 {
		return
	}
	rec := evid.For("C08")
	for _, n := range []int{2, 3} {
		tc := newTwoChain(tcOpts{nExecutors: 1})
		u := tc.users[1]
		each := math.NewIntFromUint64(1<<63 + 7)
		for k := 0; k < n; k++ {
			tc.l1.Fund(tc.users[0].Addr, sdk.NewCoin("uinit", each))
			r, p := tc.l1Deposit(tc.users[0], u.Str, sdk.NewCoin("uinit", each), nil)
			if p == nil {
				t.Fatalf("L1 refused a deposit of 2^63+7: %v", r.Err)
			}
			if rr := tc.l2.Deliver(relayMsg(tc.executors[0].Str, p)); !rr.OK() {
				caseFail(t, fmt.Sprintf("accumulated/%d", n), "C08 violated: faithful relay of a deposit of %s failed: %v", each, rr.Err)
			}
		}
		l2d := tcL2Denom(tc, "uinit")
		bal := tc.l2.Balance(u.Addr, l2d)
		r := tc.l2.Deliver(opchildtypes.NewMsgInitiateTokenWithdrawal(u.Str, u.Str, sdk.NewCoin(l2d, bal)))
		if r.OK() {
			for _, x := range parseWithdrawalEvents(r.Events) {
				if _, ok := tc.leafOf(x); !ok {
					caseFail(t, fmt.Sprintf("accumulated/%d", n), "C08 violated: L2 burnt %s%s and recorded withdrawal #%d of that amount: it does not fit the 64-bit commitment format, no L1 claim can pay it and the escrow keeps the coins", x.Amount, x.Denom, x.Seq)
				}
			}
		}
		c := rec.Begin()
		c.Class("whole-balance-above-2^64-asked-for-at-once")
		c.Done()
	}
}
