package props

import (
	"fmt"
	"strings"
	"testing"
	"time"

	"cosmossdk.io/math"
	sdk "github.com/cosmos/cosmos-sdk/types"
	"pgregory.net/rapid"

	ophosttypes "github.com/initia-labs/OPinit/x/ophost/types"

	"verifharness/evid"
	"verifharness/henv"
)

var c02Weights = []weighted{{"claim", 16}, {"propose", 6}, {"advance", 4}, {"delete", 3}, {"create", 1}, {"deposit", 1}, {"role", 2}}

var c02RoundTrips int

// c02Claimed checks Query/Claimed against the paid set, in both directions, for every tuple
// ever offered and on every bridge.
func c02Claimed(w *l1World, offered map[string]wd) error {
	ids := w.ids
	if len(w.active) > 0 {
		ids = w.active // a chain with hundreds of bridges: the ones the history works on
	}
	for _, t := range offered {
		h := t.leaf()
		for _, id := range ids {
			res, err := w.e.Q.Claimed(w.e.Ctx, &ophosttypes.QueryClaimedRequest{BridgeId: id, WithdrawalHash: h[:]})
			if err != nil {
				return err
			}
			want := id == t.Bridge && w.bridges[id].Paid[t.key()]
			if res.Claimed != want {
				return fmt.Errorf("Claimed(bridge %d, withdrawal %s) = %v, paid = %v", id, t.key(), res.Claimed, want)
			}
		}
	}
	return nil
}

func TestC02Rapid(t *testing.T) {
	rec := evid.For("C02")
	runRapid(t, 150, 6000, func(rt *rapid.T) {
		c := rec.Begin()
		w := newL1World(rt, l1Cfg{weights: c02Weights, maxBridges: 2, badCfgProb: 0, manyBridges: true, periods: []time.Duration{time.Second, 10 * time.Second}})
		for i := rapid.IntRange(1, 2).Draw(rt, "initial"); i > 0; i-- {
			st := w.opCreate(rt, true)
			if st != nil && st.Res.OK() {
				for _, d := range w.denoms {
					w.e.Fund(escrowAddr(st.Bridge), coinOf(d, 1_000_000_000))
					w.bridges[st.Bridge].addLedger(d, math.NewInt(1_000_000_000))
				}
			}
		}
		offered := map[string]wd{}
		type hist struct {
			paidAtIndex uint64
			paidGen     int // number of deletions seen when it was paid
			again       bool
		}
		paidHist := map[string]*hist{}
		deletions := 0
		shape := ""
		bulkAt := -1
		if rapid.IntRange(0, 39).Draw(rt, "bulk") == 0 {
			bulkAt = rapid.IntRange(0, 20).Draw(rt, "bulkAt")
		}
		restarted := false
		repeatSteps(rt, 50, func(i int) {
			paidBefore := map[string]bool{}
			for _, id := range w.ids {
				for k, v := range w.bridges[id].Paid {
					paidBefore[fmt.Sprintf("%d|%s", id, k)] = v
				}
			}
			if bulkAt == i && len(w.ids) > 0 {
				// a long-lived bridge: far more than a page of paid withdrawals
				c02Bulk(rt, w, w.bridges[w.ids[0]], offered)
				c.Class("bridge-with-more-than-100-paid-withdrawals")
				if w.bulkPaid > 1000 {
					c.Class("bridge-with-more-than-1000-paid-withdrawals")
				}
			}
			if rapid.IntRange(0, 24).Draw(rt, "roundtrip") == 0 {
				// the chain is exported and restarted from its genesis in the middle of the history:
				// what has been paid stays paid
				w.restart(rt)
				c.Class("genesis-round-trip-inside-history")
				restarted = true
			}
			pre := w.balances()
			// one step in six runs with a token hook on the bank transfer that submits the claim being
			// executed once more from inside the transfer (as a sub-message of the receiving side would)
			nested, nestedErr := false, error(nil)
			if rapid.IntRange(0, 5).Draw(rt, "reenter") == 0 {
				env := w.e
				env.Send.Fn = func(ctx sdk.Context, from, to sdk.AccAddress, amt sdk.Coins) {
					cur, ok := env.Send.Current.(*ophosttypes.MsgFinalizeTokenWithdrawal)
					if !ok || nested || !from.Equals(escrowAddr(cur.BridgeId)) {
						return
					}
					nested = true
					nestedErr = env.Nested(ctx, cloneMsg(cur))
				}
			}
			// one step in eight the bank refuses transfers out of an escrow (a restriction on the token, a frozen
			// account): a claim that cannot be paid must fail as a whole and stay payable
			refused := 0
			if !nested && rapid.IntRange(0, 7).Draw(rt, "bankRefuses") == 0 {
				env := w.e
				env.Send.Reject = func(ctx sdk.Context, from, to sdk.AccAddress, amt sdk.Coins) error {
					if cur, ok := env.Send.Current.(*ophosttypes.MsgFinalizeTokenWithdrawal); ok && from.Equals(escrowAddr(cur.BridgeId)) {
						refused++
						return fmt.Errorf("transfer refused by the token")
					}
					return nil
				}
			}
			preDigest := ""
			if w.e.Send.Reject != nil {
				preDigest = w.e.Digest()
			}
			st := w.step(rt)
			w.e.Send.Fn, w.e.Send.Reject = nil, nil
			if refused > 0 {
				c.Class("claim-whose-transfer-the-bank-refuses")
				if st.Res.OK() {
					rt.Fatalf("C02 violated at step %d: the bank refused the payout but the claim succeeded (nothing was paid, the withdrawal counts as claimed)\nhistory:\n%s", i, w.history())
				}
				if w.e.Digest() != preDigest {
					rt.Fatalf("C02 violated at step %d: a claim that failed because the bank refused the payout changed state\nhistory:\n%s", i, w.history())
				}
			}
			if nested {
				c.Class("claim-resubmitted-while-its-transfer-executes")
				if nestedErr == nil {
					rt.Fatalf("C02 violated at step %d: the claim was submitted again while its own transfer was executing and the second submission was paid too\nhistory:\n%s", i, w.history())
				}
			}
			if st.Kind == "delete" && st.Res.OK() {
				deletions++
			}
			if st.Kind == "claim" {
				tu := *st.Tuple
				offered[tu.key()] = tu
				pk := fmt.Sprintf("%d|%s", tu.Bridge, tu.key())
				if st.Res.OK() && strings.HasPrefix(st.Expect, "respell") {
					rt.Fatalf("C02 violated at step %d: a claim naming the recipient or the token in another spelling (%s, %s) was paid: it is not the committed withdrawal, and the committed one can be paid as well\nhistory:\n%s", i, tu.To, tu.Denom, w.history())
				}
				if st.Res.OK() {
					if paidBefore[pk] {
						rt.Fatalf("C02 violated at step %d: withdrawal %s was paid a second time (index %d)\nhistory:\n%s", i, tu.key(), st.OutIndex, w.history())
					}
					post := w.balances()
					esc, to := escrowAddr(tu.Bridge).String(), tu.To
					if a, err := sdk.AccAddressFromBech32(to); err == nil {
						to = a.String() // balances are looked up under the canonical spelling of the account
					}
					coin := sdk.NewCoin(tu.Denom, math.NewIntFromUint64(tu.Amount))
					pe, _ := parseCoins(pre[esc])
					qe, _ := parseCoins(post[esc])
					pt, _ := parseCoins(pre[to])
					qt, _ := parseCoins(post[to])
					if esc != to && (!pe.Sub(coin).Equal(qe) || !pt.Add(coin).Equal(qt)) {
						rt.Fatalf("C02 violated at step %d: paying %s moved escrow %s->%s, recipient %s->%s\nhistory:\n%s", i, coin, pe, qe, pt, qt, w.history())
					}
					paidHist[pk] = &hist{paidAtIndex: st.OutIndex, paidGen: deletions}
					c.Class("claim-paid")
				} else if h := paidHist[pk]; h != nil {
					c.Class("claim-of-paid-rejected")
					if st.OutIndex != h.paidAtIndex || deletions != h.paidGen {
						h.again = true
						c.Class("paid-withdrawal-offered-via-other-index-or-after-delete")
						shape += fmt.Sprintf("r%d/%d;", st.OutIndex, h.paidAtIndex)
					}
				}
			}
			// with more than 500 withdrawals on record the complete sweep runs after a restart and every tenth step,
			// the steps in between look at what this step touched
			sweep := offered
			if len(offered) > 500 && !restarted && i%10 != 9 {
				sweep = map[string]wd{}
				if st.Kind == "claim" {
					sweep[st.Tuple.key()] = *st.Tuple
				}
			}
			restarted = false
			if err := c02Claimed(w, sweep); err != nil {
				rt.Fatalf("C02 violated after step %d: %v\nhistory:\n%s", i, err, w.history())
			}
		})
		nt := 0
		for _, h := range paidHist {
			if h.again {
				nt++
			}
		}
		if nt > 0 {
			c.NonTrivial()
			c.Shape(shape)
		}
		c.Sample(func() interface{} { return map[string]interface{}{"history": w.log} })
		c.Done()
	})
}

// ---- bounded exhaustive enumeration of schedules ------------------------------------------

const c02Period = 10 * time.Second

type c02Out struct {
	tree int // which fixed tree
	at   time.Time
}

func TestC02Exhaustive(t *testing.T) {
	rec := evid.For("C02")
	depth := 6
	if thorough() {
		depth = 7
	}
	e := henv.NewL1(henv.L1Options{NoHook: true})
	prop, chal, rcpt := henv.MakeUser("c02-prop"), henv.MakeUser("c02-chal"), henv.MakeUser("c02-rcpt")
	if r := e.Deliver(ophosttypes.NewMsgCreateBridge(prop.Str, henv.DefaultBridgeConfig(prop.Str, chal.Str, c02Period))); !r.OK() {
		t.Fatal(r.Err)
	}
	e.Fund(escrowAddr(1), coinOf("uinit", 1_000_000))
	tuples := []wd{
		{Bridge: 1, Seq: 1, From: "a", To: rcpt.Str, Denom: "uinit", Amount: 5},
		{Bridge: 1, Seq: 2, From: "b", To: rcpt.Str, Denom: "uinit", Amount: 7},
		{Bridge: 1, Seq: 3, From: "c", To: rcpt.Str, Denom: "uinit", Amount: 11},
	}
	// tree 0 = [A,B,C] (C is self-paired one level up), tree 1 = [C,A]: leaves shared between outputs
	trees := []*mOutput{
		buildOutput([]wd{tuples[0], tuples[1], tuples[2]}, 1, make([]byte, 32)),
		buildOutput([]wd{tuples[2], tuples[0]}, 1, make([]byte, 32)),
	}
	posIn := func(tree int, tu int) int {
		for i, x := range trees[tree].Tuples {
			if x.key() == tuples[tu].key() {
				return i
			}
		}
		return -1
	}
	type op struct {
		kind string // P propose tree, D delete last, T advance, C claim tuple against index
		a, b int
	}
	var alphabet []op
	alphabet = append(alphabet, op{"P", 0, 0}, op{"P", 1, 0}, op{"T", 0, 0}, op{"D", 0, 0})
	for tu := 0; tu < 3; tu++ {
		for idx := 1; idx <= 2; idx++ {
			alphabet = append(alphabet, op{"C", tu, idx})
		}
	}
	name := func(o op) string {
		switch o.kind {
		case "P":
			return fmt.Sprintf("P%d", o.a)
		case "C":
			return fmt.Sprintf("C%c@%d", 'A'+o.a, o.b)
		}
		return o.kind
	}
	count, firstOp := 0, 0
	var dfs func(ctx sdk.Context, outs []c02Out, paid [3]bool, bal int64, path string, d int, dupAfterPaid bool)
	dfs = func(ctx sdk.Context, outs []c02Out, paid [3]bool, bal int64, path string, d int, dupAfterPaid bool) {
		if d == depth {
			return
		}
		for oi, o := range alphabet {
			if d == 0 {
				firstOp = oi
			}
			if d == 1 && !enumShard(firstOp*len(alphabet)+oi) {
				continue
			}
			npath := path + name(o) + " "
			if rc := replayCase(); rc != "" && !(len(rc) >= len(npath) && rc[:len(npath)] == npath) && !(len(npath) >= len(rc) && npath[:len(rc)] == rc) {
				continue
			}
			cctx, _ := ctx.CacheContext()
			cctx = cctx.WithBlockHeight(ctx.BlockHeight() + 1)
			nouts := append([]c02Out{}, outs...)
			npaid, nbal, ndup := paid, bal, dupAfterPaid
			e2 := *e
			e2.Ctx = cctx
			switch o.kind {
			case "T":
				cctx = cctx.WithBlockTime(ctx.BlockTime().Add(c02Period))
				e2.Ctx = cctx
			case "P":
				tr := trees[o.a]
				r := e2.Deliver(ophosttypes.NewMsgProposeOutput(prop.Str, 1, uint64(len(outs)+1), uint64(len(outs)+1)*10+uint64(d), tr.Root[:]))
				if !r.OK() {
					caseFail(t, npath, "propose rejected: %v", r.Err)
				}
				nouts = append(nouts, c02Out{tree: o.a, at: cctx.BlockTime()})
			case "D":
				idx := uint64(len(outs))
				r := e2.Deliver(ophosttypes.NewMsgDeleteOutput(chal.Str, 1, idx))
				want := idx >= 1 && cctx.BlockTime().Before(outs[idx-1].at.Add(c02Period))
				if r.OK() != want {
					caseFail(t, npath, "delete(%d) accepted=%v want %v (%v)", idx, r.OK(), want, r.Err)
				}
				if r.OK() {
					nouts = nouts[:idx-1]
				}
			case "C":
				tu, idx := o.a, o.b
				// build the claim from the tree stored at idx (or from a tree that holds the tuple if none/other)
				tree := -1
				if idx <= len(outs) {
					tree = outs[idx-1].tree
				}
				src := tree
				if src < 0 || posIn(src, tu) < 0 {
					src = 0 // tree 0 contains every tuple
				}
				msg := claimMsg(rcpt.Str, tuples[tu], trees[src], uint64(idx), posIn(src, tu))
				r := e2.Deliver(msg)
				want := tree >= 0 && posIn(tree, tu) >= 0 && src == tree && !cctx.BlockTime().Before(outs[idx-1].at.Add(c02Period)) && !paid[tu]
				if r.OK() != want {
					caseFail(t, npath, "claim of %c against index %d: accepted=%v, reference says %v (paid before=%v): %v", 'A'+tu, idx, r.OK(), want, paid[tu], r.Err)
				}
				if paid[tu] {
					ndup = true
				}
				if r.OK() {
					npaid[tu] = true
					nbal -= int64(tuples[tu].Amount)
				}
			}
			// Claimed == paid, escrow == initial - sum paid
			for i, tu := range tuples {
				h := tu.leaf()
				res, err := e2.Q.Claimed(e2.Ctx, &ophosttypes.QueryClaimedRequest{BridgeId: 1, WithdrawalHash: h[:]})
				if err != nil || res.Claimed != npaid[i] {
					caseFail(t, npath, "Claimed(%c) = %v (err %v), paid = %v", 'A'+i, res.GetClaimed(), err, npaid[i])
				}
			}
			if got := e2.Balance(escrowAddr(1), "uinit"); !got.Equal(math.NewInt(nbal)) {
				caseFail(t, npath, "escrow %s, expected %d", got, nbal)
			}
			count++
			if d+1 == depth {
				c := rec.Begin()
				c.Class("enumerated-schedule")
				if ndup {
					c.NonTrivial()
					c.Shape(npath)
				}
				if count%20000 == 1 {
					pp := npath
					c.Sample(func() interface{} { return map[string]interface{}{"enumerated_schedule": pp, "paid": npaid} })
				}
				c.Done()
			}
			dfs(cctx, nouts, npaid, nbal, npath, d+1, ndup)
		}
	}
	dfs(e.Ctx, nil, [3]bool{}, 1_000_000, "", 0, false)
	rec.ExhaustiveSubspace(fmt.Sprintf("all schedules of length %d over {propose tree [A,B,C], propose tree [C,A], delete last, advance one period, claim X against index k for X in {A,B,C}, k in {1,2}} with a two-sided reference verdict for every claim", depth))
}

// c02Bulk proposes one output of 110-160 fresh withdrawals on bridge b, lets it become final and
// pays every one of them.
func c02Bulk(rt *rapid.T, w *l1World, b *mBridge, offered map[string]wd) {
	n := rapid.IntRange(110, 160).Draw(rt, "bulkn")
	if rapid.IntRange(0, 3).Draw(rt, "bulkHuge") == 0 {
		n = rapid.IntRange(1001, 1030).Draw(rt, "bulkHugeN") // more than any page or batch size a reader of the claim records might use
	}
	var ts []wd
	for i := 0; i < n; i++ {
		t := wd{Bridge: b.ID, Seq: b.NextWdSeq, From: "bulk", To: w.users[i%len(w.users)].Str, Denom: "uinit", Amount: uint64(1 + i%7)}
		b.NextWdSeq++
		b.Pool = append(b.Pool, t)
		ts = append(ts, t)
	}
	o := buildOutput(ts, 0, ref32(9))
	var prev uint64
	if len(b.Outputs) > 0 {
		prev = b.Outputs[len(b.Outputs)-1].L2Block
	}
	if prev == ^uint64(0) {
		return
	}
	idx := uint64(len(b.Outputs) + 1)
	r := w.e.Deliver(ophosttypes.NewMsgProposeOutput(b.Proposer, b.ID, idx, prev+1, o.Root[:]))
	if !r.OK() {
		return
	}
	o.Index, o.L2Block, o.At, o.Height = idx, prev+1, w.e.Ctx.BlockTime(), w.e.Ctx.BlockHeight()
	b.Outputs = append(b.Outputs, o)
	w.e.AdvanceTo(o.At.Add(b.Period))
	w.e.Fund(escrowAddr(b.ID), coinOf("uinit", 10000))
	b.addLedger("uinit", math.NewInt(10000))
	for i, t := range ts {
		if res := w.e.Deliver(claimMsg(w.users[0].Str, t, o, idx, i)); res.OK() {
			b.Paid[t.key()] = true
			b.addLedger("uinit", math.NewIntFromUint64(t.Amount).Neg())
			offered[t.key()] = t
		} else {
			rt.Fatalf("C02 setup: bulk claim %d rejected: %v", i, res.Err)
		}
	}
	w.bulkPaid = n
	w.logf("bulk: %d withdrawals paid on bridge %d through output %d", n, b.ID, idx)
}
