package props

import (
	"fmt"
	"strings"
	"testing"
	"time"

	"cosmossdk.io/math"
	sdk "github.com/cosmos/cosmos-sdk/types"
	"pgregory.net/rapid"

	ophostkeeper "github.com/initia-labs/OPinit/x/ophost/keeper"
	ophosttypes "github.com/initia-labs/OPinit/x/ophost/types"

	"verifharness/evid"
	"verifharness/henv"
)

var c01Weights = []weighted{{"deposit", 8}, {"advance", 5}, {"claim", 8}, {"propose", 6}, {"create", 3}, {"send", 2}, {"delete", 2}, {"role", 2}}

// c01Frame is the snapshot the frame condition compares against.
type c01Frame struct {
	digest   string
	balances map[string]string
	bridges  map[uint64]string
	escrow   map[uint64]sdk.Coins
}

func (w *l1World) watchIDs() []uint64 {
	var ids []uint64
	if len(w.active) > 0 {
		ids = append(ids, w.active...)
		return append(ids, w.nextID, w.nextID+1, 3, 64, 77)
	}
	for id := uint64(1); id <= w.nextID+1; id++ {
		ids = append(ids, id)
	}
	return append(ids, 77)
}

func (w *l1World) frame() c01Frame {
	f := c01Frame{digest: w.e.Digest(), balances: w.balances(), bridges: map[uint64]string{}, escrow: map[uint64]sdk.Coins{}}
	for _, id := range w.watchIDs() {
		f.bridges[id] = w.e.BridgeDigest(id, nil)
		f.escrow[id] = w.e.BK.GetAllBalances(w.e.Ctx, escrowAddr(id))
	}
	return f
}

// c01Check asserts the C01 oracle for one step.
func c01Check(w *l1World, st *l1Step, pre, post c01Frame) error {
	if st.Kind == "advance" || st.Kind == "skip" {
		if pre.digest != post.digest {
			return fmt.Errorf("state changed without a message")
		}
		return nil
	}
	// (4) a failed message changes nothing at all
	if !st.Res.OK() {
		if pre.digest != post.digest {
			return fmt.Errorf("failed %s changed state:\n%s", st.Kind, henvDiff(w, pre, post))
		}
		return nil
	}
	// (1) ledger
	for _, id := range w.watchIDs() {
		for _, d := range w.denoms {
			got := w.e.Balance(escrowAddr(id), d)
			want := w.expectedEscrow(id, d)
			if !got.Equal(want) {
				return fmt.Errorf("escrow of bridge %d holds %s%s, ledger (deposits - claims + direct sends) says %s", id, got, d, want)
			}
		}
	}
	// (1b) a deposit that reports success has moved its coins to the address derived from the id it names,
	// whether or not a bridge exists there (the ledger of that address follows every accepted deposit)
	if st.Kind == "deposit" {
		for _, d := range w.denoms {
			if got, want := w.e.Balance(escrowAddr(st.Bridge), d), w.expectedEscrow(st.Bridge, d); !got.Equal(want) {
				return fmt.Errorf("deposit of %s into bridge id %d reported success, the address derived from that id holds %s%s, accepted deposits and transfers add up to %s", st.Amount, st.Bridge, got, d, want)
			}
		}
	}
	// (2) an escrow balance decreases only by a successful claim of that bridge, by the claimed coin
	for id := range pre.escrow {
		before, after := pre.escrow[id], post.escrow[id]
		if after.IsAllGTE(before) {
			continue
		}
		if st.Kind != "claim" || st.Bridge != id {
			return fmt.Errorf("escrow of bridge %d decreased (%s -> %s) in a %s step addressed to bridge %d", id, before, after, st.Kind, st.Bridge)
		}
		paid := sdk.NewCoins(sdk.NewCoin(st.Tuple.Denom, math.NewIntFromUint64(st.Tuple.Amount)))
		if !before.Sub(paid...).Equal(after) {
			return fmt.Errorf("claim of %s changed escrow of bridge %d from %s to %s", paid, id, before, after)
		}
	}
	// (3) frame condition: other bridges and uninvolved accounts
	for id := range pre.bridges {
		if id == st.Bridge {
			continue
		}
		if _, ok := post.bridges[id]; !ok {
			continue
		}
		if st.Kind == "send" {
			// a plain bank transfer may credit any escrow; only the non-bank part is compared
			continue
		}
		if st.Kind == "claim" && st.Tuple != nil && st.Tuple.To == sdk.AccAddress(escrowAddr(id)).String() {
			// the withdrawal names this bridge's escrow account as its L1 recipient: the payout arrives there
			// (the ledger above accounts for it); everything else about the bridge stays as it was
			cut := func(d string) string { return d[:strings.LastIndex(d, "escrow=")] }
			if cut(pre.bridges[id]) != cut(post.bridges[id]) {
				return fmt.Errorf("claim addressed to bridge %d changed records of bridge %d:\n before %s\n after  %s", st.Bridge, id, pre.bridges[id], post.bridges[id])
			}
			continue
		}
		if pre.bridges[id] != post.bridges[id] {
			return fmt.Errorf("%s addressed to bridge %d changed bridge %d:\n before %s\n after  %s", st.Kind, st.Bridge, id, pre.bridges[id], post.bridges[id])
		}
	}
	allowed := map[string]bool{}
	for _, a := range st.Allowed {
		allowed[a.String()] = true
	}
	for acc, b := range pre.balances {
		if !allowed[acc] && post.balances[acc] != b {
			return fmt.Errorf("%s changed the balance of uninvolved account %s: %s -> %s", st.Kind, acc, b, post.balances[acc])
		}
	}
	return nil
}

// allTuples lists every withdrawal the history has invented, per bridge.
func (w *l1World) tupleMap() map[string]wd {
	m := map[string]wd{}
	for _, id := range w.ids {
		for _, t := range w.bridges[id].Pool {
			m[fmt.Sprintf("%d|%s", id, t.key())] = t
		}
	}
	return m
}

func henvDiff(w *l1World, pre, post c01Frame) string {
	s := ""
	for k, v := range pre.balances {
		if post.balances[k] != v {
			s += fmt.Sprintf("  balance %s: %s -> %s\n", k, v, post.balances[k])
		}
	}
	for k, v := range pre.bridges {
		if post.bridges[k] != v {
			s += fmt.Sprintf("  bridge %d: %s -> %s\n", k, v, post.bridges[k])
		}
	}
	return s
}

func TestC01Rapid(t *testing.T) {
	rec := evid.For("C01")
	runRapid(t, 100, 5000, func(rt *rapid.T) {
		c := rec.Begin()
		w := newL1World(rt, l1Cfg{weights: c01Weights, maxBridges: 4, withFee: true, badCfgProb: 5, manyBridges: true,
			periods: []time.Duration{time.Second, time.Minute, time.Hour, 1<<63 - 1}})
		// start with one or two bridges so that most histories are about several bridges
		for i := rapid.IntRange(1, 2).Draw(rt, "initial"); i > 0; i-- {
			w.opCreate(rt, true)
		}
		depositOn, claimOn := map[uint64]bool{}, map[uint64]bool{}
		shape := ""
		pre := w.frame()
		bulkAt := -1
		if rapid.IntRange(0, 19).Draw(rt, "bulk") == 0 {
			bulkAt = rapid.IntRange(2, 25).Draw(rt, "bulkAt")
		}
		repeatSteps(rt, 40, func(i int) {
			if i == bulkAt && len(w.ids) > 0 {
				// a long run of pending outputs (more than any per-message bound a handler might have)
				w.bulkPropose(rt, w.bridges[w.ids[0]], rapid.SampledFrom([]int{120, 257, 300}).Draw(rt, "bulkN"))
				c.Class("bridge-with-a-long-run-of-pending-outputs")
				pre = w.frame()
			}
			if rapid.IntRange(0, 24).Draw(rt, "roundtrip") == 0 {
				// the chain is exported and restarted from its genesis in the middle of the history: every
				// bridge keeps its own records (the claims below are judged by the same ledger as before)
				w.restart(rt)
				c.Class("genesis-round-trip-inside-history")
				if err := c02Claimed(w, w.tupleMap()); err != nil {
					rt.Fatalf("C01 violated at step %d: after a restart from the exported genesis the claim records of a bridge differ: %v\nhistory:\n%s", i, err, w.history())
				}
				pre = w.frame()
			}
			st := w.step(rt)
			post := w.frame()
			if err := c01Check(w, st, pre, post); err != nil {
				rt.Fatalf("C01 violated at step %d: %v\nhistory:\n%s", i, err, w.history())
			}
			pre = post
			if st.Res.OK() {
				switch st.Kind {
				case "deposit":
					if st.Amount.IsPositive() {
						depositOn[st.Bridge] = true
					}
					c.Class("deposit-ok")
				case "claim":
					claimOn[st.Bridge] = true
					c.Class("claim-ok")
				case "send":
					c.Class("direct-send-ok")
				}
				shape += st.Kind[:2] + fmt.Sprint(st.Bridge)
			} else if st.Kind == "claim" {
				c.Class("claim-rejected/" + st.Expect)
				if st.Expect == "valid" {
					c.Class("claim-rejected-valid-why/" + errKind(st.Res.Err))
				}
			}
		})
		cross := false
		for d := range depositOn {
			for cl := range claimOn {
				if d != cl {
					cross = true
				}
			}
		}
		if len(w.ids) >= 2 && cross {
			c.NonTrivial()
			c.Shape(shape)
		}
		if len(w.active) > 0 {
			c.Class("chain-with-65-or-more-bridges")
		} else {
			c.Classf("bridges=%d", len(w.ids))
		}
		c.Sample(func() interface{} { return map[string]interface{}{"history": w.log} })
		c.Done()
	})
}

func errKind(err error) string {
	s := err.Error()
	for _, k := range []string{"not finalized", "already finalized", "insufficient funds", "invalid output root", "invalid storage root", "not found", "panic"} {
		if strings.Contains(s, k) {
			return k
		}
	}
	if len(s) > 40 {
		s = s[:40]
	}
	return s
}

// TestC01DepositToMissingBridge: a deposit that names a bridge id without a bridge either fails
// without effect or, if it reports success, has moved its coins (bounded: ids next, next+1, 77, 0).
func TestC01DepositToMissingBridge(t *testing.T) {
	rec := evid.For("C01")
	for _, nBridges := range []int{0, 1, 3} {
		for _, off := range []uint64{0, 1, 76} {
			e := henv.NewL1(henv.L1Options{NoHook: true})
			u := henv.MakeUser("c01-missing")
			e.Fund(u.Addr, coinOf("uinit", 1000))
			for i := 0; i < nBridges; i++ {
				if r := e.Deliver(ophosttypes.NewMsgCreateBridge(u.Str, henv.DefaultBridgeConfig(u.Str, u.Str, time.Minute))); !r.OK() {
					t.Fatal(r.Err)
				}
			}
			id := uint64(nBridges) + 1 + off
			before, digest := e.Balance(u.Addr, "uinit"), e.Digest()
			r := e.Deliver(ophosttypes.NewMsgInitiateTokenDeposit(u.Str, id, u.Str, coinOf("uinit", 250), nil))
			moved := before.Sub(e.Balance(u.Addr, "uinit"))
			held := e.Balance(escrowAddr(id), "uinit")
			caseID := fmt.Sprintf("bridges=%d/id=%d", nBridges, id)
			if r.OK() && (!moved.Equal(math.NewInt(250)) || !held.Equal(math.NewInt(250))) {
				caseFail(t, caseID, "C01 violated: a deposit of 250uinit into bridge id %d (no such bridge) reported success; the sender paid %s and the address derived from the id holds %s", id, moved, held)
			}
			if !r.OK() && e.Digest() != digest {
				caseFail(t, caseID, "C01 violated: a refused deposit into bridge id %d changed state", id)
			}
			// the same request handed to the message server directly, as another module would call it
			// (no router, no transaction wrapper): "no error" must mean that the coins are in escrow
			cctx, _ := e.Ctx.CacheContext()
			_, err := ophostkeeper.NewMsgServerImpl(*e.K).InitiateTokenDeposit(cctx, ophosttypes.NewMsgInitiateTokenDeposit(u.Str, id, u.Str, coinOf("uinit", 250), nil))
			if got := e.BK.GetBalance(cctx, escrowAddr(id), "uinit").Amount.Sub(held); err == nil && !got.Equal(math.NewInt(250)) {
				caseFail(t, caseID, "C01 violated: the message server accepted (no error) a deposit of 250uinit into bridge id %d (no such bridge); the address derived from the id received %s", id, got)
			}
			c := rec.Begin()
			c.Class("deposit-to-missing-bridge-id")
			c.Done()
		}
	}
}
