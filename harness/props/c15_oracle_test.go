package props

import (
	"bytes"
	"fmt"
	"math/big"
	"sort"
	"strings"
	"testing"
	"time"

	cometabci "github.com/cometbft/cometbft/abci/types"
	cmted25519 "github.com/cometbft/cometbft/crypto/ed25519"
	cmtprotocrypto "github.com/cometbft/cometbft/proto/tendermint/crypto"
	cmtproto "github.com/cometbft/cometbft/proto/tendermint/types"
	cryptocodec "github.com/cosmos/cosmos-sdk/crypto/codec"
	"github.com/cosmos/cosmos-sdk/crypto/keys/ed25519"
	sdk "github.com/cosmos/cosmos-sdk/types"
	protoio "github.com/cosmos/gogoproto/io"
	"pgregory.net/rapid"

	connectcodec "github.com/skip-mev/connect/v2/abci/strategies/codec"
	"github.com/skip-mev/connect/v2/abci/strategies/currencypair"
	vetypes "github.com/skip-mev/connect/v2/abci/ve/types"
	connecttypes "github.com/skip-mev/connect/v2/pkg/types"
	oracletypes "github.com/skip-mev/connect/v2/x/oracle/types"

	opchildtypes "github.com/initia-labs/OPinit/x/opchild/types"

	"verifharness/evid"
	"verifharness/henv"
)

const (
	c15ChainID  = "l1-chain"
	c15ClientID = "07-tendermint-0"
	c15TsPair   = "TIMESTAMP/NANOSECOND"
)

var (
	c15VeCodec = connectcodec.NewCompressionVoteExtensionCodec(connectcodec.NewDefaultVoteExtensionCodec(), connectcodec.NewZLibCompressor())
	c15EcCodec = connectcodec.NewCompressionExtendedCommitCodec(connectcodec.NewDefaultExtendedCommitCodec(), connectcodec.NewZStdCompressor())
)

type c15Val struct {
	priv  *ed25519.PrivKey
	power int64
	addr  []byte
}

type c15World struct {
	l2       *henv.L2
	exec     henv.User
	stranger henv.User
	pairs    []string // currency pairs incl. the timestamp pair
	vals     []c15Val // the candidate L1 validators (the stored set is what was last refreshed)
	// model of the stored host validator snapshot
	storedHeight  int64
	stored        map[string]c15Val // cons address -> validator
	enabled       bool
	client        string // the L1 client id configured in the bridge info ("" = not yet configured)
	log           []string
	badKeyNext    bool // the next refresh carries an entry with an unconvertible consensus key
	discardNext   bool // the next refresh runs on a branch that is thrown away
	repowered     int  // number of power changes of known validators offered so far
	noInfo        bool // no bridge info has been registered on L2 yet
	repoints      int
	startedNoInfo bool
	discarded     int
}

func (w *c15World) logf(f string, a ...interface{}) { w.log = append(w.log, fmt.Sprintf(f, a...)) }

func c15SignBytes(chainID string, height int64, round int64, ext []byte) []byte {
	var buf bytes.Buffer
	cve := cmtproto.CanonicalVoteExtension{Extension: ext, Height: height, Round: round, ChainId: chainID}
	if err := protoio.NewDelimitedWriter(&buf).WriteMsg(&cve); err != nil {
		panic(err)
	}
	return buf.Bytes()
}

func (w *c15World) setBridgeInfo(enabled bool) {
	cfg := henv.DefaultBridgeConfig(w.exec.Str, w.exec.Str, time.Hour)
	cfg.OracleEnabled = enabled
	info := opchildtypes.BridgeInfo{BridgeId: 1, BridgeAddr: "bridge-addr", L1ChainId: c15ChainID, L1ClientId: w.client, BridgeConfig: cfg}
	if r := w.l2.Deliver(opchildtypes.NewMsgSetBridgeInfo(w.exec.Str, info)); !r.OK() {
		panic(r.Err)
	}
	w.noInfo = false
	w.enabled = enabled
}

func newC15World(rt *rapid.T) *c15World {
	w := &c15World{exec: henv.MakeUser("c15-exec"), stranger: henv.MakeUser("c15-stranger"), stored: map[string]c15Val{}}
	w.l2 = henv.NewL2(henv.L2Options{Admin: w.exec.Str, Executors: []string{w.exec.Str}})
	w.l2.Ctx = w.l2.Ctx.WithBlockHeight(50)
	w.client = c15ClientID
	if rapid.IntRange(0, 3).Draw(rt, "clientLater") == 0 {
		w.client = "" // the client id is configured later in the history
	}
	if rapid.IntRange(0, 5).Draw(rt, "infoLater") == 0 {
		// the executor has not relayed the bridge info yet: light-client updates that arrive now (of whatever client)
		// have no L1 client to be compared with and record nothing
		w.noInfo, w.enabled, w.startedNoInfo = true, false, true
	} else {
		w.setBridgeInfo(true)
	}
	w.l2.OK.InitGenesis(w.l2.Ctx, oracletypes.GenesisState{CurrencyPairGenesis: []oracletypes.CurrencyPairGenesis{}})
	np := rapid.IntRange(1, 4).Draw(rt, "npairs")
	w.pairs = append([]string{"BTC/USD", "ETH/USD", "ATOM/USD", "INIT/USD"}[:np], c15TsPair)
	for _, p := range w.pairs {
		cp, err := connecttypes.CurrencyPairFromString(p)
		if err != nil {
			panic(err)
		}
		if err := w.l2.OK.CreateCurrencyPair(w.l2.Ctx, cp); err != nil {
			panic(err)
		}
	}
	// power patterns
	pattern := rapid.SampledFrom([]string{"one", "equal3", "equal4", "equal6", "33-33-34", "40-30-30", "whale", "near", "random", "huge"}).Draw(rt, "powers")
	var powers []int64
	switch pattern {
	case "one":
		powers = []int64{5}
	case "equal3":
		powers = []int64{1, 1, 1}
	case "equal4":
		powers = []int64{10, 10, 10, 10}
	case "equal6":
		powers = []int64{1, 1, 1, 1, 1, 1}
	case "33-33-34":
		powers = []int64{33, 33, 34}
	case "40-30-30":
		powers = []int64{40, 30, 30}
	case "whale":
		powers = []int64{70, 10, 10, 5, 5}
	case "near":
		powers = []int64{667, 333, 1, 1}
	case "huge":
		// four equal powers whose sum, converted to tokens (x 10^6), does not fit 64 bits: CometBFT allows a total
		// power up to 2^63/8; such a set must never let a minority decide (whether it can be served at all is
		// not asserted, see the liveness side)
		powers = []int64{4611686018428, 4611686018428, 4611686018428, 4611686018428}
	case "random":
		n := rapid.IntRange(1, 7).Draw(rt, "nvals")
		for i := 0; i < n; i++ {
			powers = append(powers, int64(rapid.IntRange(1, 1000).Draw(rt, "power")))
		}
	}
	for i, p := range powers {
		k := henv.MakeConsKey(fmt.Sprintf("l1val-%d", i))
		w.vals = append(w.vals, c15Val{priv: k, power: p, addr: k.PubKey().Address()})
	}
	w.logf("pairs=%v powers=%s %v", w.pairs, pattern, powers)
	return w
}

// refresh offers a validator-set snapshot of some subset of the candidates.
func (w *c15World) refresh(rt *rapid.T, forceValid ...bool) error {
	clientID := rapid.SampledFrom([]string{c15ClientID, c15ClientID, c15ClientID, "07-tendermint-9", ""}).Draw(rt, "client")
	hkind := rapid.SampledFrom([]string{"higher", "higher", "equal", "lower"}).Draw(rt, "hkind")
	if len(forceValid) > 0 && forceValid[0] {
		clientID, hkind = c15ClientID, "higher"
		if w.client == "" {
			w.client = c15ClientID
			w.setBridgeInfo(w.enabled)
		}
	}
	var height int64
	switch hkind {
	case "higher":
		height = w.storedHeight + int64(rapid.IntRange(1, 5).Draw(rt, "dh"))
	case "equal":
		height = w.storedHeight
	case "lower":
		height = w.storedHeight - 1
	}
	// subset (at least one) with possibly changed powers
	set := &cmtproto.ValidatorSet{}
	offered := map[string]c15Val{}
	for i, v := range w.vals {
		if i > 0 && (rapid.IntRange(0, 5).Draw(rt, "drop") == 0 || (w.discardNext && rapid.Bool().Draw(rt, "dropMore"))) {
			continue
		}
		pk, err := cryptocodec.ToCmtProtoPublicKey(v.priv.PubKey())
		if err != nil {
			panic(err)
		}
		if v.power < 1<<40 && rapid.IntRange(0, 3).Draw(rt, "repower") == 0 {
			// the validator's voting power on L1 has changed since the last snapshot
			v.power = int64(rapid.IntRange(1, 1000).Draw(rt, "newPower"))
			w.vals[i].power = v.power
			w.repowered++
		}
		set.Validators = append(set.Validators, &cmtproto.Validator{Address: v.addr, PubKey: pk, VotingPower: v.power})
		offered[string(v.addr)] = v
	}
	// the total_voting_power field of the set is not covered by the L1 validators hash: a header that the light
	// client accepts can carry any number there; the powers of the listed validators are what counts
	if rapid.IntRange(0, 2).Draw(rt, "statedTotal") == 0 {
		set.TotalVotingPower = rapid.SampledFrom([]int64{1, 2, 7, 1 << 40}).Draw(rt, "totalVotingPower")
	}
	if w.badKeyNext {
		// the light client hands over a set in which one entry (not the first) has a consensus key that cannot
		// be converted: the refresh fails, and the transaction that carried it is rolled back - the caller
		// writes only when no error is returned
		w.badKeyNext = false
		if len(set.Validators) >= 2 {
			set.Validators[len(set.Validators)-1].PubKey = cmtprotocrypto.PublicKey{}
		} else {
			set.Validators = append(set.Validators, &cmtproto.Validator{Address: []byte("unconvertible-key-01"), VotingPower: 1})
		}
		cctx, write := w.l2.Ctx.CacheContext()
		err := w.l2.K.UpdateHostValidatorSet(cctx, clientID, height, set)
		w.logf("refresh with an unconvertible key (client=%q height=%d n=%d) -> %v", clientID, height, len(set.Validators), err)
		if err == nil {
			write()
			w.logf("... reported success, written")
		}
		if err := w.checkStored(); err != nil {
			return fmt.Errorf("after a refresh that carried an unconvertible consensus key: %v", err)
		}
		return nil
	}
	if w.discardNext {
		// the refresh runs on a branch that is never written (the client-update transaction fails later,
		// or is only simulated): the recorded set, and everything derived from it, stays what it was
		w.discardNext = false
		cctx, _ := w.l2.Ctx.CacheContext()
		err := w.l2.K.UpdateHostValidatorSet(cctx, clientID, height, set)
		w.logf("refresh on a discarded branch (client=%q height=%d n=%d) -> %v", clientID, height, len(set.Validators), err)
		return w.checkStored()
	}
	if w.noInfo {
		// whatever the hook answers while no bridge info exists (it is called inside the client-update transaction,
		// which is written only when no error comes back): nothing may be recorded
		cctx, write := w.l2.Ctx.CacheContext()
		err := w.l2.K.UpdateHostValidatorSet(cctx, clientID, height, set)
		if err == nil {
			write()
		}
		w.logf("refresh before any bridge info exists (client=%q height=%d n=%d) -> %v", clientID, height, len(set.Validators), err)
		if err := w.checkStored(); err != nil {
			return fmt.Errorf("a light-client update that arrived before the bridge info was registered: %v", err)
		}
		return nil
	}
	err := w.l2.K.UpdateHostValidatorSet(w.l2.Ctx, clientID, height, set)
	if err != nil {
		return fmt.Errorf("validator-set refresh returned an error: %v", err)
	}
	if clientID != "" && clientID == w.client && height > w.storedHeight {
		w.storedHeight, w.stored = height, offered
	}
	w.logf("refresh(client=%q configured=%q height=%d n=%d) -> stored height %d", clientID, w.client, height, len(set.Validators), w.storedHeight)
	return w.checkStored()
}

func (w *c15World) checkStored() error {
	h, err := w.l2.K.HostValidatorStore.GetLastHeight(w.l2.Ctx)
	if err != nil {
		h = 0
	}
	if h != w.storedHeight {
		return fmt.Errorf("recorded L1 validator-set height is %d, only refreshes from the configured client with a higher height add up to %d", h, w.storedHeight)
	}
	vals, err := w.l2.K.HostValidatorStore.GetAllValidators(w.l2.Ctx)
	if err != nil {
		return err
	}
	if len(vals) != len(w.stored) {
		return fmt.Errorf("recorded L1 validator set has %d validators, expected %d", len(vals), len(w.stored))
	}
	for _, v := range vals {
		ca, _ := v.GetConsAddr()
		m, ok := w.stored[string(ca)]
		if !ok || v.GetBondedTokens().Quo(sdk.DefaultPowerReduction).Int64() != m.power {
			return fmt.Errorf("recorded L1 validator %X has power %s, expected %d (known=%v)", ca, v.GetBondedTokens().Quo(sdk.DefaultPowerReduction), m.power, ok)
		}
	}
	return nil
}

type c15Price struct {
	price string
	ts    int64
	h     uint64
	ok    bool
}

func (w *c15World) prices() map[string]c15Price {
	out := map[string]c15Price{}
	for _, p := range w.pairs {
		cp, _ := connecttypes.CurrencyPairFromString(p)
		qp, err := w.l2.OK.GetPriceForCurrencyPair(w.l2.Ctx, cp)
		if err != nil {
			out[p] = c15Price{}
			continue
		}
		out[p] = c15Price{price: qp.Price.String(), ts: qp.BlockTimestamp.UnixNano(), h: qp.BlockHeight, ok: true}
	}
	return out
}

type c15Entry struct {
	kind string
	vote cometabci.ExtendedVoteInfo
}

// buildEntry creates one extended-commit entry of the given kind for validator v.
func (w *c15World) buildEntry(rt *rapid.T, kind string, v c15Val, height int64, round int32, ts int64, basePrice int64) cometabci.ExtendedVoteInfo {
	prices := map[uint64][]byte{}
	put := func(pair string, val *big.Int) {
		id, err := currencypair.CurrencyPairToHashID(pair)
		if err != nil {
			panic(err)
		}
		bz, _ := val.GobEncode()
		prices[id] = bz
	}
	for _, p := range w.pairs {
		if p == c15TsPair {
			if kind != "no-timestamp" {
				put(p, big.NewInt(ts))
			}
			continue
		}
		if kind == "subset" && rapid.Bool().Draw(rt, "omit") {
			continue
		}
		if kind == "ts-only" {
			continue // signs the commit and dates it, prices nothing
		}
		put(p, big.NewInt(basePrice+int64(rapid.IntRange(0, 3).Draw(rt, "jitter"))))
	}
	switch kind {
	case "oversized":
		id, _ := currencypair.CurrencyPairToHashID(w.pairs[0])
		prices[id] = bytes.Repeat([]byte{1}, 40)
	case "unknown-pair":
		prices[12345] = []byte{2, 1}
	}
	ext, err := c15VeCodec.Encode(vetypes.OracleVoteExtension{Prices: prices})
	if err != nil {
		panic(err)
	}
	signer := v.priv
	chain, h, r := c15ChainID, height-1, int64(round)
	switch kind {
	case "other-key":
		signer = henv.MakeConsKey("somebody-else")
	case "wrong-chain":
		chain = "other-chain"
	case "height+1":
		h++
	case "height-1":
		h--
	case "round+1":
		r++
	}
	sig, err := signer.Sign(c15SignBytes(chain, h, r, ext))
	if err != nil {
		panic(err)
	}
	vote := cometabci.ExtendedVoteInfo{Validator: cometabci.Validator{Address: v.addr, Power: v.power}, VoteExtension: ext, ExtensionSignature: sig, BlockIdFlag: cmtproto.BlockIDFlagCommit}
	switch kind {
	case "altered":
		// extension changed after signing
		ext2, _ := c15VeCodec.Encode(vetypes.OracleVoteExtension{Prices: map[uint64][]byte{}})
		vote.VoteExtension = ext2
	case "nil-vote":
		vote.BlockIdFlag, vote.VoteExtension, vote.ExtensionSignature = cmtproto.BlockIDFlagNil, nil, nil
	case "absent":
		vote.BlockIdFlag, vote.VoteExtension, vote.ExtensionSignature = cmtproto.BlockIDFlagAbsent, nil, nil
	case "nil-with-payload":
		vote.BlockIdFlag = cmtproto.BlockIDFlagNil
	case "no-signature":
		vote.ExtensionSignature = nil
	case "long-address":
		// the validator's address followed by one more byte: not the address of any recorded L1 validator
		vote.Validator.Address = append(append([]byte{}, vote.Validator.Address...), byte(1+len(ext)%200))
	case "long-signature":
		// a signature with one byte too many (an honest signature followed by a zero)
		vote.ExtensionSignature = append(append([]byte{}, vote.ExtensionSignature...), 0)
	case "short-signature":
		vote.ExtensionSignature = append([]byte{}, vote.ExtensionSignature[:len(vote.ExtensionSignature)-1]...)
	}
	return vote
}

// honestPower is the independent quorum arithmetic: per pair, the power of distinct stored
// validators with a commit entry whose signature verifies for (chain, height-1, round, ext)
// under the stored key and whose extension carries a decodable price for the pair.
func (w *c15World) honestPower(votes []cometabci.ExtendedVoteInfo, height int64, round int32) (perPair map[string]int64, total int64, values map[string]map[string]bool) {
	perPair = map[string]int64{}
	values = map[string]map[string]bool{}
	for _, v := range w.stored {
		total += v.power
	}
	counted := map[string]map[string]bool{}
	for _, vote := range votes {
		sv, ok := w.stored[string(vote.Validator.Address)]
		if !ok || vote.BlockIdFlag != cmtproto.BlockIDFlagCommit {
			continue
		}
		pub := cmted25519.PubKey(sv.priv.PubKey().Bytes())
		if !pub.VerifySignature(c15SignBytes(c15ChainID, height-1, int64(round), vote.VoteExtension), vote.ExtensionSignature) {
			continue
		}
		ove, err := c15VeCodec.Decode(vote.VoteExtension)
		if err != nil {
			continue
		}
		for _, p := range w.pairs {
			id, _ := currencypair.CurrencyPairToHashID(p)
			bz, ok := ove.Prices[id]
			if !ok || len(bz) > 33 {
				continue
			}
			var x big.Int
			if err := x.GobDecode(bz); err != nil || x.Sign() < 0 {
				continue
			}
			if values[p] == nil {
				values[p] = map[string]bool{}
			}
			values[p][x.String()] = true
			if counted[p] == nil {
				counted[p] = map[string]bool{}
			}
			if !counted[p][string(sv.addr)] {
				counted[p][string(sv.addr)] = true
				perPair[p] += sv.power
			}
		}
	}
	return perPair, total, values
}

// safety is the soundness side of C15 for one update: every price that changed is backed by a
// two-thirds quorum of validly signed votes, carries a value some such vote supplied, moves its
// timestamp forward, and came from an executor while the oracle is enabled.
func (w *c15World) safety(before, after map[string]c15Price, r henv.Result, sender string, perPair map[string]int64, total int64, values map[string]map[string]bool, height int64) (changed int, err error) {
	for _, p := range w.pairs {
		if before[p] == after[p] {
			continue
		}
		changed++
		if !r.OK() {
			return changed, fmt.Errorf("price of %s changed although the update failed", p)
		}
		if sender != w.exec.Str {
			return changed, fmt.Errorf("price of %s changed by an update that was not sent by a bridge executor", p)
		}
		if !w.enabled {
			return changed, fmt.Errorf("price of %s changed while the bridge has the oracle disabled", p)
		}
		if 3*perPair[p] < 2*total {
			return changed, fmt.Errorf("price of %s changed with validly signed votes of only %d out of %d power (< 2/3)", p, perPair[p], total)
		}
		newVal := after[p].price
		if p == c15TsPair {
			newVal = fmt.Sprint(after[p].ts)
		}
		if !values[p][newVal] {
			return changed, fmt.Errorf("%s was set to %s, a value that no validly signed vote carries (repeated, unsigned or foreign entries must contribute nothing)", p, newVal)
		}
		if before[p].ok && after[p].ts <= before[p].ts {
			return changed, fmt.Errorf("timestamp of %s went from %d to %d (must strictly increase)", p, before[p].ts, after[p].ts)
		}
		if height < w.storedHeight {
			return changed, fmt.Errorf("price of %s changed by an update at height %d older than the recorded validator set (%d)", p, height, w.storedHeight)
		}
	}
	return changed, nil
}

var c15Kinds = []weighted{{"honest", 30}, {"subset", 3}, {"missing", 3}, {"duplicate", 2}, {"dup-forged", 2}, {"odd-flag-forged", 2}, {"other-key", 1}, {"wrong-chain", 1}, {"height+1", 1}, {"height-1", 1}, {"round+1", 1},
	{"altered", 1}, {"unknown-validator", 2}, {"nil-vote", 2}, {"absent", 2}, {"nil-with-payload", 1}, {"no-signature", 1}, {"long-signature", 2}, {"short-signature", 1}, {"long-address", 2}, {"oversized", 1}, {"unknown-pair", 1}, {"no-timestamp", 1}}

func TestC15Rapid(t *testing.T) {
	rec := evid.For("C15")
	runRapid(t, 2000, 25000, func(rt *rapid.T) {
		w := newC15World(rt)
		if err := w.refresh(rt, rapid.IntRange(0, 9).Draw(rt, "firstRefreshValid") < 9); err != nil {
			rt.Fatalf("C15 violated: %v\nhistory:\n%s", err, strings.Join(w.log, "\n"))
		}
		// L1 timestamps of 2023, or of 2100: nothing may depend on how they relate to the L2 block time or to
		// the clock of the machine that executes the block
		ts := rapid.SampledFrom([]int64{1_700_000_000_000_000_000, 1_700_000_000_000_000_000, 4_102_444_800_000_000_000}).Draw(rt, "tsBase")
		applied := map[string]int64{} // pair -> L1 timestamp of the last update that changed it
		repeatSteps(rt, 6, func(i int) {
			fail := func(f string, a ...interface{}) {
				rt.Fatalf("C15 violated at step %d: %s\nhistory:\n%s", i, fmt.Sprintf(f, a...), strings.Join(w.log, "\n"))
			}
			switch drawWeighted(rt, "op", []weighted{{"update", 8}, {"refresh", 2}, {"toggle", 1}, {"discarded-refresh", 1}, {"next-block", 2}, {"bad-key-refresh", 1}, {"repoint-attempt", 1}}) {
			case "next-block":
				w.l2.NextBlock(time.Duration(rapid.IntRange(1, 10).Draw(rt, "blockSeconds")) * time.Second)
				w.logf("next block, time %s", w.l2.Ctx.BlockTime().UTC().Format(time.RFC3339))
				return
			case "repoint-attempt":
				// the executor tries to re-point the bridge to another light client, directly or by first blanking the
				// configured client id: the configured L1 client stays what it is
				if w.noInfo || w.client == "" {
					return
				}
				for _, cl := range []string{"", "07-tendermint-9"} {
					cfg := henv.DefaultBridgeConfig(w.exec.Str, w.exec.Str, time.Hour)
					cfg.OracleEnabled = w.enabled
					r := w.l2.Deliver(opchildtypes.NewMsgSetBridgeInfo(w.exec.Str, opchildtypes.BridgeInfo{BridgeId: 1, BridgeAddr: "bridge-addr", L1ChainId: c15ChainID, L1ClientId: cl, BridgeConfig: cfg}))
					w.logf("set-bridge-info with client id %q -> %v", cl, r.Err)
				}
				w.repoints++
				if got, err := w.l2.K.BridgeInfo.Get(w.l2.Ctx); err != nil || got.L1ClientId != w.client {
					fail("after attempts to blank and replace the L1 client id the bridge info names client %q (err %v), configured was %q", got.L1ClientId, err, w.client)
				}
				return
			case "bad-key-refresh":
				w.badKeyNext = true
				if err := w.refresh(rt, true); err != nil {
					fail("%v", err)
				}
				return
			case "discarded-refresh":
				w.discardNext = true
				w.discarded++
				if err := w.refresh(rt); err != nil {
					fail("%v", err)
				}
				return
			case "refresh":
				if err := w.refresh(rt); err != nil {
					fail("%v", err)
				}
				return
			case "toggle":
				if w.client == "" && rapid.Bool().Draw(rt, "configure") {
					w.client = c15ClientID
					w.logf("client id configured")
				}
				w.setBridgeInfo(!w.enabled)
				w.logf("oracle enabled = %v", w.enabled)
				return
			}
			if !w.enabled && rapid.Bool().Draw(rt, "reenable") {
				w.setBridgeInfo(true)
				w.logf("oracle enabled = true")
			}
			c := rec.Begin()
			// timestamps: increasing, equal or decreasing relative to the previous update
			switch rapid.SampledFrom([]string{"inc", "inc", "inc", "same", "dec"}).Draw(rt, "tskind") {
			case "inc":
				ts += int64(rapid.IntRange(1, 1000).Draw(rt, "dts"))
			case "dec":
				ts -= int64(rapid.IntRange(1, 1000).Draw(rt, "dts"))
			}
			height := w.storedHeight + int64(rapid.SampledFrom([]int{1, 1, 1, 0, 5, -1}).Draw(rt, "dheight"))
			if height < 1 {
				height = 1
			}
			round := int32(rapid.IntRange(0, 3).Draw(rt, "round"))
			basePrice := int64(rapid.IntRange(1, 1_000_000).Draw(rt, "price"))
			var votes []cometabci.ExtendedVoteInfo
			var kinds []string
			forged := 0
			mostlyHonest := rapid.IntRange(0, 9).Draw(rt, "honestRun") < 4
			// one update in six: everybody signs, but the heaviest validators price nothing - the pairs are then
			// backed by just the rest (e.g. 66 of 100 with powers 33-33-34: below two thirds)
			tsOnlyFrom := -1
			if rapid.IntRange(0, 5).Draw(rt, "heavyPricesNothing") == 0 && len(w.vals) >= 2 {
				tsOnlyFrom = len(w.vals) - rapid.IntRange(1, (len(w.vals)+1)/2).Draw(rt, "nHeavy")
			}
			for vi, v := range w.vals {
				kind := "honest"
				if tsOnlyFrom >= 0 {
					if vi >= tsOnlyFrom {
						kind = "ts-only"
					}
				} else if !mostlyHonest {
					kind = drawWeighted(rt, "entry", c15Kinds)
				} else if rapid.IntRange(0, 9).Draw(rt, "miss") == 0 {
					kind = "missing"
				}
				kinds = append(kinds, kind)
				switch kind {
				case "missing":
					continue
				case "duplicate":
					votes = append(votes, w.buildEntry(rt, "honest", v, height, round, ts, basePrice), w.buildEntry(rt, "honest", v, height, round, ts, basePrice+7))
					forged++
				case "dup-forged":
					// a genuine vote followed by a repeat for the same validator that was never signed by it
					forgedEntry := w.buildEntry(rt, "honest", v, height, round, ts, basePrice*5+11)
					if rapid.Bool().Draw(rt, "nosig") {
						forgedEntry.ExtensionSignature = []byte("not a signature")
					} else {
						forgedEntry.ExtensionSignature = w.buildEntry(rt, "honest", v, height, round, ts, basePrice).ExtensionSignature
					}
					votes = append(votes, w.buildEntry(rt, "honest", v, height, round, ts, basePrice), forgedEntry)
					forged++
				case "odd-flag-forged":
					// after the genuine vote: an entry for the same validator whose block-id flag is not one of
					// commit / nil / absent (0 = unknown, or out of range), with a forged extension and no signature
					forgedEntry := w.buildEntry(rt, "honest", v, height, round, ts, basePrice*7+13)
					forgedEntry.BlockIdFlag = cmtproto.BlockIDFlag(rapid.SampledFrom([]int32{0, 7, 4, -1}).Draw(rt, "oddflag"))
					forgedEntry.ExtensionSignature = nil
					votes = append(votes, w.buildEntry(rt, "honest", v, height, round, ts, basePrice), forgedEntry)
					forged++
				case "unknown-validator":
					u := henv.MakeConsKey("unknown-" + fmt.Sprint(len(votes)))
					votes = append(votes, w.buildEntry(rt, "honest", c15Val{priv: u, power: 1_000_000, addr: u.PubKey().Address()}, height, round, ts, basePrice*3))
					forged++
				default:
					votes = append(votes, w.buildEntry(rt, kind, v, height, round, ts, basePrice))
					if kind != "honest" && kind != "subset" {
						forged++
					}
				}
			}
			if rapid.Bool().Draw(rt, "shuffle") && len(votes) > 1 {
				votes[0], votes[len(votes)-1] = votes[len(votes)-1], votes[0]
			}
			data, err := c15EcCodec.Encode(cometabci.ExtendedCommitInfo{Round: round, Votes: votes})
			if err != nil {
				panic(err)
			}
			sender := w.exec.Str
			var oracleMsg sdk.Msg
			switch rapid.IntRange(0, 14).Draw(rt, "stranger") {
			case 0:
				sender = w.stranger.Str
			case 1:
				// the admin (here the same account as the executor) batches an update whose sender is the module
				// authority: the batch demands that signer, the update demands a bridge executor - which the authority is not
				sender = w.l2.Authority
				oracleMsg, _ = opchildtypes.NewMsgExecuteMessages(w.exec.Str, []sdk.Msg{opchildtypes.NewMsgUpdateOracle(sender, uint64(height), data)})
			}
			if oracleMsg == nil {
				oracleMsg = opchildtypes.NewMsgUpdateOracle(sender, uint64(height), data)
			}
			before, digest := w.prices(), w.l2.Digest()
			r := w.l2.Deliver(oracleMsg)
			after := w.prices()
			perPair, total, values := w.honestPower(votes, height, round)
			w.logf("update(sender=%s height=%d stored=%d round=%d ts=%d entries=%v) -> %v", short(sender), height, w.storedHeight, round, ts, kinds, r.Err)
			if !r.OK() && digest != w.l2.Digest() {
				fail("a failed oracle update changed state")
			}
			changed, serr := w.safety(before, after, r, sender, perPair, total, values, height)
			if serr != nil {
				fail("%v", serr)
			}
			for _, p := range w.pairs {
				if before[p] == after[p] {
					continue
				}
				if last, ok := applied[p]; ok && ts <= last {
					fail("%s was changed by an update with L1 timestamp %d after an update with L1 timestamp %d had been applied (replay / rollback)", p, ts, last)
				}
				applied[p] = ts
			}
			// liveness side: a fully honest, fresh, sufficiently supported update must be applied
			allHonest := forged == 0
			fresh := true
			minPower := int64(1 << 62)
			for _, p := range w.pairs {
				if before[p].ok && ts <= before[p].ts {
					fresh = false
				}
				if perPair[p] < minPower {
					minPower = perPair[p]
				}
			}
			for _, k := range kinds {
				if k != "honest" && k != "missing" {
					allHonest = false
				}
			}
			if allHonest && fresh && sender == w.exec.Str && w.enabled && height >= w.storedHeight && total > 0 && total < (1<<63-1)/1_000_000 && minPower*1000 >= 667*total {
				if !r.OK() || changed != len(w.pairs) {
					fail("an honest update signed by %d of %d power with a fresh timestamp was not applied (err %v, %d of %d pairs changed)", minPower, total, r.Err, changed, len(w.pairs))
				}
				c.Class("honest-quorum-applied")
			}
			if err := w.checkStored(); err != nil {
				fail("%v", err)
			}
			// classification
			near := false
			for _, p := range w.pairs {
				if total > 0 && perPair[p]*100 >= 60*total && perPair[p]*100 <= 70*total {
					near = true
				}
			}
			if r.OK() {
				c.Class("update-applied")
				if w.discarded > 0 {
					c.Class("update-applied-after-a-discarded-refresh")
				}
			} else {
				c.Class("update-rejected")
				if w.discarded > 0 {
					c.Class("update-rejected-after-a-discarded-refresh")
				}
				c.Class("rejected/" + truncStr(r.Err.Error(), 38))
			}
			if near {
				c.Class("honest-power-within-60-70-percent")
			}
			if forged > 0 {
				c.Class("contains-forged-or-duplicate-or-foreign-entry")
			}
			if w.startedNoInfo {
				c.Class("history-that-started-without-bridge-info")
			}
			if w.repoints > 0 {
				c.Class("update-after-an-attempt-to-replace-the-l1-client")
			}
			if near || forged > 0 {
				c.NonTrivial()
				ks := append([]string{}, kinds...)
				sort.Strings(ks)
				c.Shape(fmt.Sprintf("%v/%d/%d/%v/%v", ks, minPower, total, r.OK(), sender == w.exec.Str))
			}
			kk := kinds
			c.Sample(func() interface{} {
				return map[string]interface{}{"entries": kk, "honest_power_per_pair": perPair, "total_power": total, "applied": r.OK(), "pairs_changed": changed, "height": height, "stored_height": w.storedHeight}
			})
			c.Done()
		})
	})
}
