package props

import (
	"bytes"
	"fmt"
	"testing"
	"time"

	cryptotypes "github.com/cosmos/cosmos-sdk/crypto/types"
	sdk "github.com/cosmos/cosmos-sdk/types"
	banktypes "github.com/cosmos/cosmos-sdk/x/bank/types"

	opchildtypes "github.com/initia-labs/OPinit/x/opchild/types"
	ophosttypes "github.com/initia-labs/OPinit/x/ophost/types"

	"verifharness/henv"
)

// Native (coverage-guided) fuzz targets, time-boxed add-ons of the thorough tier. The semantic
// oracle sits inside the target; all state is rebuilt in every iteration. Under plain
// `go test` they run their seed corpus only.

// FuzzC19Metadata: arbitrary metadata bytes offered at bridge creation and at a metadata
// update, against channels in a state chosen by the second argument; judged by the same
// oracle as TestC19Rapid (independent token-level reader, three-valued).
func FuzzC19Metadata(f *testing.F) {
	seeds := []string{
		`{"perm_channels":[{"port_id":"transfer","channel_id":"channel-0"}]}`,
		`{"perm_channels":[{"port_id":"transfer","channel_id":"channel-0"},{"port_id":"transfer","channel_id":"channel-1"}]}`,
		`{"perm_channels":[]}`, `{"perm_channels":null}`, `{"perm_channels":[{"port_id":"transfer","channel_id":"channel-2"}],"x":1}`,
		`{"Perm_Channels":[{"port_id":"transfer","channel_id":"channel-0"}]}`, `{"perm_channels":[{"Port_ID":"transfer","channel_id":"channel-1"}]}`,
		`{"perm_channels":[{"port_id":"transfer","channel_id":"channel-0"}],"perm_channels":[]}`, `[1]`, `"perm_channels"`, ``, "\x01\x02\x03",
		`{"perm\u005fchannels":[{"port_id":"transfer","channel_id":"channel-0"}]}`,
		`{"perm_channels":[{"port_id":"transfer","channel_id":"channel-0"},{"port_id":"nft-transfer","channel_id":"channel-0"}]}`,
		`{"perm_channels":[{"port_id":"transfer","channel_id":"channel-0"}]} x`, `{"perm_channels":[{"port_id":"transfer","channel_id":"channel-0"}]}`,
	}
	for i, s := range seeds {
		f.Add([]byte(s), byte(i*37))
	}
	f.Fuzz(func(t *testing.T, md []byte, st byte) {
		if len(md) > 6000 {
			return
		}
		e := henv.NewL1(henv.L1Options{})
		w := &c19World{e: e}
		for i := 0; i < 3; i++ {
			w.users = append(w.users, henv.MakeUser(fmt.Sprintf("c19-%d", i)))
		}
		// channel states from the state byte: 2 bits per channel (fresh, missing, in use, taken by user 2)
		for i, ch := range c19Channels[:3] {
			switch (st >> (2 * i)) & 3 {
			case 0:
				e.Chan.Set(e.Ctx, ch.port, ch.channel, 1)
			case 2:
				e.Chan.Set(e.Ctx, ch.port, ch.channel, 5)
			case 3:
				e.Chan.Set(e.Ctx, ch.port, ch.channel, 1)
				_ = e.Perm.SetAdmin(e.Ctx, ch.port, ch.channel, w.users[2].Addr)
			}
		}
		prop, chal := w.users[0], w.users[1]
		pre := w.chanStates()
		cfg := henv.DefaultBridgeConfig(prop.Str, chal.Str, time.Minute)
		cfg.Metadata = md
		r := e.Deliver(ophosttypes.NewMsgCreateBridge(prop.Str, cfg))
		if _, err := c19JudgeListing("create-bridge", md, chal.Str, pre, w.chanStates(), r.OK(), len(md) > ophosttypes.MaxMetadataLength); err != nil {
			t.Fatalf("C19 violated: %v\nmetadata %q state %08b", err, md, st)
		}
		// the same bytes offered as a metadata update of a bridge that lists nothing
		cfg.Metadata = nil
		r = e.Deliver(ophosttypes.NewMsgCreateBridge(prop.Str, cfg))
		if !r.OK() {
			t.Fatalf("setup: %v", r.Err)
		}
		id := r.Resp.(*ophosttypes.MsgCreateBridgeResponse).BridgeId
		pre = w.chanStates()
		r = e.Deliver(ophosttypes.NewMsgUpdateMetadata(prop.Str, id, md))
		if _, err := c19JudgeListing("update-metadata", md, chal.Str, pre, w.chanStates(), r.OK(), len(md) > ophosttypes.MaxMetadataLength); err != nil {
			t.Fatalf("C19 violated: %v\nmetadata %q state %08b", err, md, st)
		}
	})
}

// FuzzC07Payload: arbitrary hook payload bytes (seeded with well-signed and slightly broken
// transactions) on a deposit of 1000 to an existing account; the deposit must end in
// outcome A or B and the bridge must stay live (same judge as TestC07Rapid, expectation "either").
func FuzzC07Payload(f *testing.F) {
	mk := func() (*twoChain, henv.User) {
		tc := newTwoChain(tcOpts{nExecutors: 1, fault: true})
		for _, u := range tc.users {
			tc.l2.Fund(u.Addr, coinOf("stake", 1000))
		}
		return tc, tc.users[1]
	}
	{
		tc, signer := mk()
		num, seq := accInfo(tc.l2, signer)
		l2d := tcL2Denom(tc, "uinit")
		send := func(amt int64) sdk.Msg {
			return banktypes.NewMsgSend(signer.Addr, tc.users[2].Addr, sdk.NewCoins(coinOf(l2d, amt)))
		}
		f.Add(signTx(tc.l2, []sdk.Msg{send(1)}, []cryptotypes.PrivKey{signer.Priv}, []uint64{num}, []uint64{seq}, henv.L2ChainID))
		f.Add(signTx(tc.l2, []sdk.Msg{send(1), send(2000)}, []cryptotypes.PrivKey{signer.Priv}, []uint64{num}, []uint64{seq}, henv.L2ChainID))
		f.Add(signTx(tc.l2, []sdk.Msg{opchildtypes.NewMsgInitiateTokenWithdrawal(signer.Str, "l1addr", coinOf(l2d, 3))}, []cryptotypes.PrivKey{signer.Priv}, []uint64{num}, []uint64{seq}, henv.L2ChainID))
		f.Add(signTx(tc.l2, []sdk.Msg{send(1)}, []cryptotypes.PrivKey{signer.Priv}, []uint64{num}, []uint64{seq + 1}, henv.L2ChainID))
		f.Add(signTx(tc.l2, nil, nil, nil, nil, henv.L2ChainID))
		f.Add([]byte{0x0a, 0x00})
		f.Add([]byte("not a transaction"))
		// D11: the signer address of a signed transaction made undecodable
		bad := signTx(tc.l2, []sdk.Msg{send(1)}, []cryptotypes.PrivKey{signer.Priv}, []uint64{num}, []uint64{seq}, henv.L2ChainID)
		if at := bytes.Index(bad, []byte(signer.Str)); at >= 0 {
			bad[at+20], bad[at+21] = 0xff, 0x7f
			f.Add(bad)
		}
	}
	f.Fuzz(func(t *testing.T, data []byte) {
		if len(data) == 0 || len(data) > 4000 {
			return
		}
		tc, signer := mk()
		_, p := tc.l1Deposit(tc.users[0], signer.Str, coinOf("uinit", 1000), data)
		if p == nil {
			t.Fatalf("L1 refused a deposit with payload")
		}
		cs := &c07Case{tc: tc, msg: relayMsg(tc.executors[0].Str, p), toClass: "user", toAddr: signer.Addr, signer: signer, payload: "multi-signer", expect: "either",
			hookMaxGas: opchildtypes.DefaultHookMaxGas, desc: fmt.Sprintf("fuzz payload %x", data)}
		pre := cs.snap(tc.l2)
		tc.l2.Fault.Reset(0, false)
		r := tc.l2.DeliverWithGas(cs.msg, c07HandlerGas+cs.hookMaxGas)
		if _, err := cs.judge(tc.l2, pre, r, false); err != nil {
			t.Fatalf("C07 violated: %v\npayload %x", err, data)
		}
		if err := cs.liveness(tc.l2); err != nil {
			t.Fatalf("C07 violated (bridge blocked): %v\npayload %x", err, data)
		}
	})
}
