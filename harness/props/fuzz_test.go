package props

import (
	"bytes"
	"fmt"
	"math/big"
	"testing"
	"time"

	"cosmossdk.io/math"
	cometabci "github.com/cometbft/cometbft/abci/types"
	cmtproto "github.com/cometbft/cometbft/proto/tendermint/types"
	cryptocodec "github.com/cosmos/cosmos-sdk/crypto/codec"
	cryptotypes "github.com/cosmos/cosmos-sdk/crypto/types"
	sdk "github.com/cosmos/cosmos-sdk/types"
	banktypes "github.com/cosmos/cosmos-sdk/x/bank/types"
	"github.com/skip-mev/connect/v2/abci/strategies/currencypair"
	vetypes "github.com/skip-mev/connect/v2/abci/ve/types"
	connecttypes "github.com/skip-mev/connect/v2/pkg/types"
	oracletypes "github.com/skip-mev/connect/v2/x/oracle/types"

	opchildtypes "github.com/initia-labs/OPinit/x/opchild/types"
	ophosttypes "github.com/initia-labs/OPinit/x/ophost/types"

	"verifharness/henv"
)

// Native (coverage-guided) fuzz targets, time-boxed add-ons of the thorough tier. The semantic
// oracle sits inside the target; all state is rebuilt in every iteration. Under plain
// `go test` they run their seed corpus only.

// FuzzC19Metadata: arbitrary metadata bytes offered at bridge creation and at a metadata
// update, against channels in a state chosen by the second argument; judged by the same
// oracle as TestC19Rapid (independent token-level reader, three-valued).
func FuzzC19Metadata(f *testing.F) {
	seeds := []string{
		`{"perm_channels":[{"port_id":"transfer","channel_id":"channel-0"}]}`,
		`{"perm_channels":[{"port_id":"transfer","channel_id":"channel-0"},{"port_id":"transfer","channel_id":"channel-1"}]}`,
		`{"perm_channels":[]}`, `{"perm_channels":null}`, `{"perm_channels":[{"port_id":"transfer","channel_id":"channel-2"}],"x":1}`,
		`{"Perm_Channels":[{"port_id":"transfer","channel_id":"channel-0"}]}`, `{"perm_channels":[{"Port_ID":"transfer","channel_id":"channel-1"}]}`,
		`{"perm_channels":[{"port_id":"transfer","channel_id":"channel-0"}],"perm_channels":[]}`, `[1]`, `"perm_channels"`, ``, "\x01\x02\x03",
		`{"perm\u005fchannels":[{"port_id":"transfer","channel_id":"channel-0"}]}`,
		`{"perm_channels":[{"port_id":"transfer","channel_id":"channel-0"},{"port_id":"nft-transfer","channel_id":"channel-0"}]}`,
		`{"perm_channels":[{"port_id":"transfer","channel_id":"channel-0"}]} x`, `{"perm_channels":[{"port_id":"transfer","channel_id":"channel-0"}]}`,
	}
	for i, s := range seeds {
		f.Add([]byte(s), byte(i*37))
	}
	f.Fuzz(func(t *testing.T, md []byte, st byte) {
		if len(md) > 6000 {
			return
		}
		e := henv.NewL1(henv.L1Options{})
		w := &c19World{e: e}
		for i := 0; i < 3; i++ {
			w.users = append(w.users, henv.MakeUser(fmt.Sprintf("c19-%d", i)))
		}
		// channel states from the state byte: 2 bits per channel (fresh, missing, in use, taken by user 2)
		for i, ch := range c19Channels[:3] {
			switch (st >> (2 * i)) & 3 {
			case 0:
				e.Chan.Set(e.Ctx, ch.port, ch.channel, 1)
			case 2:
				e.Chan.Set(e.Ctx, ch.port, ch.channel, 5)
			case 3:
				e.Chan.Set(e.Ctx, ch.port, ch.channel, 1)
				_ = e.Perm.SetAdmin(e.Ctx, ch.port, ch.channel, w.users[2].Addr)
			}
		}
		prop, chal := w.users[0], w.users[1]
		pre := w.chanStates()
		cfg := henv.DefaultBridgeConfig(prop.Str, chal.Str, time.Minute)
		cfg.Metadata = md
		r := e.Deliver(ophosttypes.NewMsgCreateBridge(prop.Str, cfg))
		if _, err := c19JudgeListing("create-bridge", md, chal.Str, pre, w.chanStates(), r.OK(), len(md) > ophosttypes.MaxMetadataLength); err != nil {
			t.Fatalf("C19 violated: %v\nmetadata %q state %08b", err, md, st)
		}
		// the same bytes offered as a metadata update of a bridge that lists nothing
		cfg.Metadata = nil
		r = e.Deliver(ophosttypes.NewMsgCreateBridge(prop.Str, cfg))
		if !r.OK() {
			t.Fatalf("setup: %v", r.Err)
		}
		id := r.Resp.(*ophosttypes.MsgCreateBridgeResponse).BridgeId
		pre = w.chanStates()
		r = e.Deliver(ophosttypes.NewMsgUpdateMetadata(prop.Str, id, md))
		if _, err := c19JudgeListing("update-metadata", md, chal.Str, pre, w.chanStates(), r.OK(), len(md) > ophosttypes.MaxMetadataLength); err != nil {
			t.Fatalf("C19 violated: %v\nmetadata %q state %08b", err, md, st)
		}
	})
}

// FuzzC07Payload: arbitrary hook payload bytes (seeded with well-signed and slightly broken
// transactions) on a deposit of 1000 to an existing account; the deposit must end in
// outcome A or B and the bridge must stay live (same judge as TestC07Rapid, expectation "either").
func FuzzC07Payload(f *testing.F) {
	mk := func() (*twoChain, henv.User) {
		tc := newTwoChain(tcOpts{nExecutors: 1, fault: true})
		for _, u := range tc.users {
			tc.l2.Fund(u.Addr, coinOf("stake", 1000))
		}
		return tc, tc.users[1]
	}
	{
		tc, signer := mk()
		num, seq := accInfo(tc.l2, signer)
		l2d := tcL2Denom(tc, "uinit")
		send := func(amt int64) sdk.Msg {
			return banktypes.NewMsgSend(signer.Addr, tc.users[2].Addr, sdk.NewCoins(coinOf(l2d, amt)))
		}
		f.Add(signTx(tc.l2, []sdk.Msg{send(1)}, []cryptotypes.PrivKey{signer.Priv}, []uint64{num}, []uint64{seq}, henv.L2ChainID))
		f.Add(signTx(tc.l2, []sdk.Msg{send(1), send(2000)}, []cryptotypes.PrivKey{signer.Priv}, []uint64{num}, []uint64{seq}, henv.L2ChainID))
		f.Add(signTx(tc.l2, []sdk.Msg{opchildtypes.NewMsgInitiateTokenWithdrawal(signer.Str, "l1addr", coinOf(l2d, 3))}, []cryptotypes.PrivKey{signer.Priv}, []uint64{num}, []uint64{seq}, henv.L2ChainID))
		f.Add(signTx(tc.l2, []sdk.Msg{send(1)}, []cryptotypes.PrivKey{signer.Priv}, []uint64{num}, []uint64{seq + 1}, henv.L2ChainID))
		f.Add(signTx(tc.l2, nil, nil, nil, nil, henv.L2ChainID))
		f.Add([]byte{0x0a, 0x00})
		f.Add([]byte("not a transaction"))
		// D11: the signer address of a signed transaction made undecodable
		bad := signTx(tc.l2, []sdk.Msg{send(1)}, []cryptotypes.PrivKey{signer.Priv}, []uint64{num}, []uint64{seq}, henv.L2ChainID)
		if at := bytes.Index(bad, []byte(signer.Str)); at >= 0 {
			bad[at+20], bad[at+21] = 0xff, 0x7f
			f.Add(bad)
		}
	}
	f.Fuzz(func(t *testing.T, data []byte) {
		if len(data) == 0 || len(data) > 4000 {
			return
		}
		tc, signer := mk()
		_, p := tc.l1Deposit(tc.users[0], signer.Str, coinOf("uinit", 1000), data)
		if p == nil {
			t.Fatalf("L1 refused a deposit with payload")
		}
		cs := &c07Case{tc: tc, msg: relayMsg(tc.executors[0].Str, p), toClass: "user", toAddr: signer.Addr, signer: signer, payload: "multi-signer", expect: "either",
			hookMaxGas: opchildtypes.DefaultHookMaxGas, desc: fmt.Sprintf("fuzz payload %x", data)}
		pre := cs.snap(tc.l2)
		tc.l2.Fault.Reset(0, false)
		r := tc.l2.DeliverWithGas(cs.msg, c07HandlerGas+cs.hookMaxGas)
		if _, err := cs.judge(tc.l2, pre, r, false); err != nil {
			t.Fatalf("C07 violated: %v\npayload %x", err, data)
		}
		if err := cs.liveness(tc.l2); err != nil {
			t.Fatalf("C07 violated (bridge blocked): %v\npayload %x", err, data)
		}
	})
}

// fixedC03World: two bridges; bridge 1 has a final output over five withdrawals and a second
// output (three withdrawals) that is not final yet; bridge 2 stores the same root as bridge 1's
// first output. No generator: the fuzzer owns the claim bytes.
func fixedC03World() (*c03World, []*ophosttypes.MsgFinalizeTokenWithdrawal) {
	e := henv.NewL1(henv.L1Options{NoHook: true})
	w := &c03World{e: e, period: 10 * time.Second, outs: map[uint64][]*mOutput{}, paid: map[string]bool{}}
	for i := 0; i < 4; i++ {
		w.users = append(w.users, henv.MakeUser(fmt.Sprintf("c03-%d", i)))
	}
	for b := uint64(1); b <= 2; b++ {
		if r := e.Deliver(ophosttypes.NewMsgCreateBridge(w.users[0].Str, henv.DefaultBridgeConfig(w.users[0].Str, w.users[1].Str, w.period))); !r.OK() {
			panic(r.Err)
		}
		e.Fund(ophosttypes.BridgeAddress(b), sdk.NewCoin("uinit", c03Rich), sdk.NewCoin("uusdc", c03Rich))
		e.Fund(w.users[0].Addr, coinOf("uinit", 10), coinOf("uusdc", 10))
		for _, d := range []string{"uinit", "uusdc"} {
			if r := e.Deliver(ophosttypes.NewMsgInitiateTokenDeposit(w.users[0].Str, b, "l2-recipient", coinOf(d, 1), nil)); !r.OK() {
				panic(r.Err)
			}
		}
	}
	mk := func(b uint64, first uint64, n int) []wd {
		var ts []wd
		for i := 0; i < n; i++ {
			ts = append(ts, wd{Bridge: b, Seq: first + uint64(i), From: "l2-user", To: w.users[i%4].Str, Denom: []string{"uinit", "uusdc"}[i%2], Amount: uint64(100 + i)})
		}
		return ts
	}
	propose := func(b uint64, o *mOutput) {
		idx := uint64(len(w.outs[b]) + 1)
		if r := e.Deliver(ophosttypes.NewMsgProposeOutput(w.users[0].Str, b, idx, idx*100, o.Root[:])); !r.OK() {
			panic(r.Err)
		}
		o.Index, o.At = idx, e.Ctx.BlockTime()
		w.outs[b] = append(w.outs[b], o)
	}
	o11 := buildOutput(mk(1, 1, 5), 1, bytes.Repeat([]byte{0x11}, 32))
	propose(1, o11)
	cp := *o11
	propose(2, &cp)
	e.Advance(w.period + time.Second)
	o12 := buildOutput(mk(1, 6, 3), 0, bytes.Repeat([]byte{0x12}, 32))
	propose(1, o12)
	e.Advance(2 * time.Second)
	var valid []*ophosttypes.MsgFinalizeTokenWithdrawal
	for i, tu := range o11.Tuples {
		valid = append(valid, claimMsg(w.users[3].Str, tu, o11, 1, i))
	}
	valid = append(valid, claimMsg(w.users[3].Str, o12.Tuples[0], o12, 2, 0))
	return w, valid
}

// FuzzC03Claim: arbitrary bytes decoded as MsgFinalizeTokenWithdrawal (seeded with the encodings of
// valid claims) against a fixed chain; accept/reject must agree with the reference verifier of
// TestC03Rapid, a rejected claim changes nothing, and nothing panics.
func FuzzC03Claim(f *testing.F) {
	{
		w, valid := fixedC03World()
		for _, m := range valid {
			bz, err := w.e.Enc.Marshaler.Marshal(m)
			if err != nil {
				panic(err)
			}
			f.Add(bz)
		}
	}
	f.Fuzz(func(t *testing.T, data []byte) {
		if len(data) > 4000 {
			return
		}
		w, _ := fixedC03World()
		var m ophosttypes.MsgFinalizeTokenWithdrawal
		if err := w.e.Enc.Marshaler.Unmarshal(data, &m); err != nil {
			return
		}
		if m.Amount.Amount.IsNil() {
			// a claim without an amount: must be refused cleanly (the reference verifier is not consulted)
			before := w.e.Digest()
			if r := w.e.Deliver(&m); r.OK() || r.Panic != nil || w.e.Digest() != before {
				t.Fatalf("C03 violated: a claim without an amount was not refused cleanly (ok=%v panic=%v)\nbytes %x", r.OK(), r.Panic, data)
			}
			return
		}
		for i := 0; i < 2; i++ { // the second round offers the same claim again
			hOK, rOK, reason, err := w.tryClaim(&m)
			if err != nil {
				t.Fatalf("C03 violated (round %d): %v\noffered: %s\nbytes %x", i, err, renderClaim(&m), data)
			}
			_, _, _ = hOK, rOK, reason
		}
	})
}

// fixedC15World: oracle enabled, client configured, two price pairs plus the timestamp pair, the
// recorded L1 validator set has powers 40/30/30 at height 5.
func fixedC15World() *c15World {
	w := &c15World{exec: henv.MakeUser("c15-exec"), stranger: henv.MakeUser("c15-stranger"), stored: map[string]c15Val{}}
	w.l2 = henv.NewL2(henv.L2Options{Admin: w.exec.Str, Executors: []string{w.exec.Str}})
	w.l2.Ctx = w.l2.Ctx.WithBlockHeight(50)
	w.client = c15ClientID
	w.setBridgeInfo(true)
	w.l2.OK.InitGenesis(w.l2.Ctx, oracletypes.GenesisState{CurrencyPairGenesis: []oracletypes.CurrencyPairGenesis{}})
	w.pairs = []string{"BTC/USD", "ETH/USD", c15TsPair}
	for _, p := range w.pairs {
		cp, err := connecttypes.CurrencyPairFromString(p)
		if err != nil {
			panic(err)
		}
		if err := w.l2.OK.CreateCurrencyPair(w.l2.Ctx, cp); err != nil {
			panic(err)
		}
	}
	set := &cmtproto.ValidatorSet{}
	for i, p := range []int64{40, 30, 30} {
		k := henv.MakeConsKey(fmt.Sprintf("l1val-%d", i))
		v := c15Val{priv: k, power: p, addr: k.PubKey().Address()}
		w.vals = append(w.vals, v)
		pk, err := cryptocodec.ToCmtProtoPublicKey(k.PubKey())
		if err != nil {
			panic(err)
		}
		set.Validators = append(set.Validators, &cmtproto.Validator{Address: v.addr, PubKey: pk, VotingPower: p})
		w.stored[string(v.addr)] = v
	}
	if err := w.l2.K.UpdateHostValidatorSet(w.l2.Ctx, c15ClientID, 5, set); err != nil {
		panic(err)
	}
	w.storedHeight = 5
	return w
}

func (w *c15World) fixedVote(v c15Val, height int64, round int32, ts int64, price int64) cometabci.ExtendedVoteInfo {
	prices := map[uint64][]byte{}
	for _, p := range w.pairs {
		id, _ := currencypair.CurrencyPairToHashID(p)
		val := big.NewInt(price)
		if p == c15TsPair {
			val = big.NewInt(ts)
		}
		bz, _ := val.GobEncode()
		prices[id] = bz
	}
	ext, _ := c15VeCodec.Encode(vetypes.OracleVoteExtension{Prices: prices})
	sig, _ := v.priv.Sign(c15SignBytes(c15ChainID, height-1, int64(round), ext))
	return cometabci.ExtendedVoteInfo{Validator: cometabci.Validator{Address: v.addr, Power: v.power}, VoteExtension: ext, ExtensionSignature: sig, BlockIdFlag: cmtproto.BlockIDFlagCommit}
}

// FuzzC15Commit: the fuzzer owns the (uncompressed) extended-commit bytes of an oracle update sent by
// the executor at height 6 - seeded with an honest full commit, a 70 % commit, a 40 % commit padded
// with unsigned repeats; an earlier honest update has set prices at timestamp T. Judged by the
// soundness side of TestC15Rapid: whatever changes is backed by a signed two-thirds quorum, carries a
// signed value and a later timestamp; a failed update changes nothing.
func FuzzC15Commit(f *testing.F) {
	const ts0 = int64(1_700_000_000_000_000_000)
	{
		w := fixedC15World()
		enc := func(votes ...cometabci.ExtendedVoteInfo) []byte {
			eci := cometabci.ExtendedCommitInfo{Round: 1, Votes: votes}
			bz, err := eci.Marshal()
			if err != nil {
				panic(err)
			}
			return bz
		}
		v := w.vals
		f.Add(enc(w.fixedVote(v[0], 6, 1, ts0+5000, 200), w.fixedVote(v[1], 6, 1, ts0+5000, 201), w.fixedVote(v[2], 6, 1, ts0+5000, 202)))
		f.Add(enc(w.fixedVote(v[0], 6, 1, ts0+6000, 300), w.fixedVote(v[1], 6, 1, ts0+6000, 301)))
		unsigned := w.fixedVote(v[1], 6, 1, ts0+7000, 999)
		unsigned.ExtensionSignature = nil
		f.Add(enc(w.fixedVote(v[0], 6, 1, ts0+7000, 400), unsigned, unsigned))
		old := w.fixedVote(v[0], 6, 1, ts0-1, 500)
		f.Add(enc(old, w.fixedVote(v[1], 6, 1, ts0-1, 500), w.fixedVote(v[2], 6, 1, ts0-1, 500)))
		f.Add([]byte{})
	}
	f.Fuzz(func(t *testing.T, raw []byte) {
		if len(raw) > 8000 {
			return
		}
		var eci cometabci.ExtendedCommitInfo
		if err := eci.Unmarshal(raw); err != nil {
			return
		}
		data, err := c15EcCodec.Encode(eci)
		if err != nil {
			return
		}
		w := fixedC15World()
		// an earlier honest update at timestamp ts0
		first, _ := c15EcCodec.Encode(cometabci.ExtendedCommitInfo{Round: 1, Votes: []cometabci.ExtendedVoteInfo{w.fixedVote(w.vals[0], 6, 1, ts0, 100), w.fixedVote(w.vals[1], 6, 1, ts0, 100), w.fixedVote(w.vals[2], 6, 1, ts0, 100)}})
		if r := w.l2.Deliver(opchildtypes.NewMsgUpdateOracle(w.exec.Str, 6, first)); !r.OK() {
			t.Fatalf("setup: honest update refused: %v", r.Err)
		}
		before, digest := w.prices(), w.l2.Digest()
		r := w.l2.Deliver(opchildtypes.NewMsgUpdateOracle(w.exec.Str, 6, data))
		after := w.prices()
		if !r.OK() && digest != w.l2.Digest() {
			t.Fatalf("C15 violated: a failed oracle update changed state (%v)\ncommit %x", r.Err, raw)
		}
		perPair, total, values := w.honestPower(eci.Votes, 6, eci.Round)
		if _, err := w.safety(before, after, r, w.exec.Str, perPair, total, values, 6); err != nil {
			t.Fatalf("C15 violated: %v\ncommit %x", err, raw)
		}
	})
}

// c07EndToEnd offers one L1 deposit message (sender and bridge id are set to a funded user and the real
// bridge); whatever L1 accepts is relayed as the executor would relay it and must end on L2 in outcome
// A or B, and the bridge must stay live.
func c07EndToEnd(tc *twoChain, m *ophosttypes.MsgInitiateTokenDeposit) (accepted bool, err error) {
	m.Sender, m.BridgeId = tc.users[0].Str, tc.bridgeID
	if m.Amount.Amount.IsNil() {
		return false, nil
	}
	// the depositor owns what it deposits (when that can be expressed as a balance at all)
	if m.Amount.IsValid() && m.Amount.IsPositive() {
		if !m.Amount.Amount.IsUint64() {
			return false, nil
		}
		tc.l1.Fund(tc.users[0].Addr, m.Amount)
	}
	r := tc.l1.Deliver(m)
	if !r.OK() {
		return false, nil
	}
	evs := henv.EventAttrs(r.Events, ophosttypes.EventTypeInitiateTokenDeposit)
	if len(evs) != 1 {
		return true, fmt.Errorf("an accepted L1 deposit emitted %d deposit events", len(evs))
	}
	p := parseDepositEvent(evs[0], uint64(tc.l1.Ctx.BlockHeight()))
	var toAddr sdk.AccAddress
	if a, err := sdk.AccAddressFromBech32(p.To); err == nil {
		toAddr = a
	}
	cs := &c07Case{tc: tc, msg: relayMsg(tc.executors[0].Str, p), toClass: "end-to-end", toAddr: toAddr, signer: tc.users[1], payload: "multi-signer", expect: "either",
		hookMaxGas: opchildtypes.DefaultHookMaxGas, desc: fmt.Sprintf("L1 deposit of %q%s to %q with %d bytes of hook data", p.Amount, p.L1Denom, truncStr(p.To, 30), len(p.Data)), sent: map[string]math.Int{}, withdrawn: math.ZeroInt()}
	pre := cs.snap(tc.l2)
	tc.l2.Fault.Reset(0, false)
	res := tc.l2.DeliverWithGas(cs.msg, c07HandlerGas+cs.hookMaxGas)
	if _, err := cs.judge(tc.l2, pre, res, false); err != nil {
		return true, fmt.Errorf("%v (%s)", err, cs.desc)
	}
	var lerr error
	branchL2(tc.l2, func(b *henv.L2) { lerr = cs.liveness(b) }) // the probe deposit does not exist on L1: on a branch
	if lerr != nil {
		return true, fmt.Errorf("bridge blocked: %v (%s)", lerr, cs.desc)
	}
	return true, nil
}

// FuzzC07Deposit: the fuzzer owns the bytes of the L1 message (MsgInitiateTokenDeposit: recipient
// string, coin, hook data; sender and bridge id are fixed to a funded user and the real bridge).
// Whatever L1 accepts is relayed as the executor would relay it and must end on L2 in outcome A or
// B, and the bridge must stay live (same judge as TestC07Rapid, expectation "either").
func FuzzC07Deposit(f *testing.F) {
	mk := func() *twoChain {
		tc := newTwoChain(tcOpts{nExecutors: 1, fault: true})
		for _, u := range tc.users {
			tc.l2.Fund(u.Addr, coinOf("stake", 1000))
		}
		return tc
	}
	{
		tc := mk()
		signer := tc.users[1]
		num, seq := accInfo(tc.l2, signer)
		l2d := tcL2Denom(tc, "uinit")
		enc := func(to string, coin sdk.Coin, data []byte) []byte {
			bz, err := tc.l1.Enc.Marshaler.Marshal(ophosttypes.NewMsgInitiateTokenDeposit(tc.users[0].Str, tc.bridgeID, to, coin, data))
			if err != nil {
				panic(err)
			}
			return bz
		}
		hook := signTx(tc.l2, []sdk.Msg{banktypes.NewMsgSend(signer.Addr, tc.users[2].Addr, sdk.NewCoins(coinOf(l2d, 1)))}, []cryptotypes.PrivKey{signer.Priv}, []uint64{num}, []uint64{seq}, henv.L2ChainID)
		f.Add(enc(signer.Str, coinOf("uinit", 1000), nil))
		f.Add(enc(signer.Str, coinOf("uinit", 1000), hook))
		f.Add(enc(signer.Str, coinOf("uinit", 0), hook))
		f.Add(enc("not an address", coinOf("uinit", 5), nil))
		f.Add(enc(signer.Str, coinOf("uusdc", 7), []byte{0xff}))
	}
	f.Fuzz(func(t *testing.T, raw []byte) {
		if len(raw) > 4000 {
			return
		}
		tc := mk()
		var m ophosttypes.MsgInitiateTokenDeposit
		if err := tc.l1.Enc.Marshaler.Unmarshal(raw, &m); err != nil {
			return
		}
		if _, err := c07EndToEnd(tc, &m); err != nil {
			t.Fatalf("C07 violated: %v\nL1 message %x", err, raw)
		}
	})
}
