package props

import (
	"fmt"
	"sort"
	"strings"
	"time"

	"cosmossdk.io/math"
	sdk "github.com/cosmos/cosmos-sdk/types"
	authtypes "github.com/cosmos/cosmos-sdk/x/auth/types"
	banktypes "github.com/cosmos/cosmos-sdk/x/bank/types"
	distributiontypes "github.com/cosmos/cosmos-sdk/x/distribution/types"
	"pgregory.net/rapid"

	ophosttypes "github.com/initia-labs/OPinit/x/ophost/types"

	"verifharness/henv"
	"verifharness/ref"
)

// The shared L1 state machine: rules are the real ophost (and bank) messages with generated
// arguments; the model below is updated from *observed successes only* (DESIGN §3.2). Each
// property drives it with its own weights and asserts its own oracle on the returned step.

// wd is one L2 withdrawal tuple as it would be committed in an output tree.
type wd struct {
	Bridge uint64
	Seq    uint64
	From   string
	To     string
	Denom  string
	Amount uint64
}

func (w wd) key() string {
	return fmt.Sprintf("%d/%d/%s/%s/%s/%d", w.Bridge, w.Seq, w.From, w.To, w.Denom, w.Amount)
}
func (w wd) leaf() [32]byte { return ref.Leaf(w.Bridge, w.Seq, w.From, w.To, w.Denom, w.Amount) }

// mOutput is the model of one accepted output proposal.
type mOutput struct {
	Index     uint64
	L2Block   uint64
	At        time.Time
	Height    int64
	Version   byte
	Storage   [32]byte
	BlockHash []byte
	Root      [32]byte
	Tuples    []wd      // leaves in tree order (nil when the root is arbitrary bytes)
	Tree      *ref.Tree // nil when the root is arbitrary bytes
	Extra     [][]byte  // siblings above Tree's root: Tree is the left-most subtree of a deeper tree (the rest are other people's withdrawals)
	Synth     [][]byte  // with Tree == nil and one tuple: the sibling path from that leaf to Storage (a tree known only through this path)
}

// mBridge is the model of one bridge, built from observed successes.
type mBridge struct {
	ID             uint64
	Proposer       string
	Challenger     string
	Period         time.Duration
	NextSeq        uint64
	Outputs        []*mOutput             // indices 1..len
	Deleted        []*mOutput             // outputs that were deleted (claims against them must fail)
	Pool           []wd                   // withdrawal tuples ever committed or invented for this bridge
	LastBatch      *ophosttypes.BatchInfo // the batch info of the last accepted update
	NextWdSeq      uint64
	Paid           map[string]bool               // tuple key -> paid
	Ledger         map[string]math.Int           // denom -> deposits - claims + direct sends
	Pairs          map[string]string             // l2 denom -> l1 denom (first registration)
	LastPropose    *ophosttypes.MsgProposeOutput // the last accepted proposal message (for exact replays)
	LastProposeOut *mOutput
	FormerProp     []string
	FormerChal     []string
}

type l1Cfg struct {
	weights       []weighted
	maxBridges    int
	periods       []time.Duration // periods offered at creation (valid ones)
	badCfgProb    int             // percent of creations with an invalid config
	withFee       bool
	noAutoAdvance bool
	manyBridges   bool            // sometimes start from a chain that already has dozens of bridges
	offsets       []time.Duration // offsets around a finalization boundary that "advance" jumps to
}

type l1World struct {
	e            *henv.L1
	cfg          l1Cfg
	users        []henv.User
	denoms       []string
	bridges      map[uint64]*mBridge
	ids          []uint64
	nextID       uint64 // model of the next bridge id
	feePool      sdk.AccAddress
	bulkPaid     int
	feeCollector sdk.AccAddress
	fee          sdk.Coins
	log          []string
	stats        map[string]int
	// deposits to ids that had no bridge at the time, per id (D2 class)
	ghostDeposits map[uint64]int
	active        []uint64 // when set, operations pick their bridge from this subset
}

type l1Step struct {
	Kind    string
	Bridge  uint64 // target bridge id (0 = none)
	Signer  string
	Msg     sdk.Msg
	Res     henv.Result
	Allowed []sdk.AccAddress // accounts whose balance this step may change
	// op specific
	Tuple     *wd
	OutIndex  uint64
	Out       *mOutput // model output a claim was built against (may be a deleted one)
	OutLive   bool     // Out is currently stored at OutIndex
	ClaimOK   bool     // claim was built to be valid (fields and proof consistent with Out)
	Existed   bool     // deposit: target bridge existed before the step
	Amount    sdk.Coin
	Expect    string // free-form expectation tag set by the generator
	TimeDelta time.Duration
}

func newL1World(rt *rapid.T, cfg l1Cfg) *l1World {
	e := henv.NewL1(henv.L1Options{NoHook: true})
	w := &l1World{e: e, cfg: cfg, bridges: map[uint64]*mBridge{}, nextID: 1, stats: map[string]int{}, ghostDeposits: map[uint64]int{}}
	w.denoms = []string{"uinit", "uusdc", "ibc/27394FB092D2ECCD56123C74F36E4C1F926001CEADA9CA97EA622B25F41E5EB2"}
	if rapid.IntRange(0, 2).Draw(rt, "l2LookingDenom") == 0 {
		// the host chain is itself a rollup: one of its coins carries exactly the name that "uinit" gets on the
		// L2 of bridge 1. It is a coin like any other: deposited, committed and paid out under its own name.
		w.denoms = append(w.denoms, ref.L2Denom(1, "uinit"))
	}
	for i := 0; i < 6; i++ {
		u := henv.MakeUser(fmt.Sprintf("l1-%d", i))
		w.users = append(w.users, u)
		for _, d := range w.denoms {
			e.Fund(u.Addr, sdk.NewCoin(d, math.NewInt(1_000_000_000_000)))
		}
	}
	// one whale so that amounts around 2^63 and 2^64 can really be moved
	big, _ := math.NewIntFromString("147573952589676412928") // 2^67
	e.Fund(w.users[0].Addr, sdk.NewCoin("uinit", big))
	w.feePool = authtypes.NewModuleAddress(distributiontypes.ModuleName)
	w.feeCollector = authtypes.NewModuleAddress(authtypes.FeeCollectorName)
	w.e.AK.GetModuleAccount(w.e.Ctx, distributiontypes.ModuleName)
	w.e.AK.GetModuleAccount(w.e.Ctx, authtypes.FeeCollectorName)
	if cfg.manyBridges && rapid.IntRange(0, 7).Draw(rt, "many") == 0 {
		// a chain that already hosts many bridges: operations then work on the first two and the last two
		n := rapid.IntRange(65, 140).Draw(rt, "nbridges")
		if rapid.IntRange(0, 2).Draw(rt, "past255") == 0 {
			n = rapid.IntRange(255, 258).Draw(rt, "nbridges255") // bridge ids whose low byte is 0xfe, 0xff, 0x00, 0x01
		}
		for i := 0; i < n; i++ {
			p, ch := w.users[i%len(w.users)], w.users[(i+1)%len(w.users)]
			period := cfg.periods[i%len(cfg.periods)]
			r := e.Deliver(ophosttypes.NewMsgCreateBridge(p.Str, henv.DefaultBridgeConfig(p.Str, ch.Str, period)))
			if !r.OK() {
				panic(r.Err)
			}
			id := r.Resp.(*ophosttypes.MsgCreateBridgeResponse).BridgeId
			w.bridges[id] = &mBridge{ID: id, Proposer: p.Str, Challenger: ch.Str, Period: period, NextSeq: 1, NextWdSeq: 1,
				Paid: map[string]bool{}, Ledger: map[string]math.Int{}, Pairs: map[string]string{}}
			w.ids = append(w.ids, id)
			w.nextID = id + 1
		}
		w.active = []uint64{1, 2, uint64(n - 1), uint64(n)}
		w.cfg.maxBridges = n + 2
		w.logf("chain starts with %d bridges; active %v", n, w.active)
	}
	if cfg.withFee && rapid.Bool().Draw(rt, "fee") {
		w.fee = sdk.NewCoins(sdk.NewCoin("uinit", math.NewInt(100)))
		p := ophosttypes.NewParams(w.fee...)
		if r := e.Deliver(ophosttypes.NewMsgUpdateParams(e.Authority, &p)); !r.OK() {
			panic(r.Err)
		}
	}
	return w
}

func (w *l1World) logf(f string, a ...interface{}) { w.log = append(w.log, fmt.Sprintf(f, a...)) }

func (w *l1World) user(rt *rapid.T, label string) henv.User {
	return w.users[rapid.IntRange(0, len(w.users)-1).Draw(rt, label)]
}

func (w *l1World) anyBridge(rt *rapid.T) *mBridge {
	if len(w.ids) == 0 {
		return nil
	}
	if len(w.active) > 0 {
		return w.bridges[w.active[rapid.IntRange(0, len(w.active)-1).Draw(rt, "bridge")]]
	}
	return w.bridges[w.ids[rapid.IntRange(0, len(w.ids)-1).Draw(rt, "bridge")]]
}

// knownAccounts lists every account whose balance the frame condition watches.
func (w *l1World) knownAccounts() []sdk.AccAddress {
	var out []sdk.AccAddress
	for _, u := range w.users {
		out = append(out, u.Addr)
	}
	if len(w.active) > 0 {
		for _, id := range w.watchIDs() {
			out = append(out, escrowAddr(id))
		}
		return append(out, w.feePool, w.feeCollector)
	}
	for id := uint64(1); id <= w.nextID+2; id++ {
		out = append(out, escrowAddr(id))
	}
	out = append(out, escrowAddr(77), w.feePool, w.feeCollector)
	return out
}

func (w *l1World) balances() map[string]string {
	m := map[string]string{}
	for _, a := range w.knownAccounts() {
		m[a.String()] = w.e.BK.GetAllBalances(w.e.Ctx, a).String()
	}
	return m
}

// ---- operations -----------------------------------------------------------------------

func (w *l1World) step(rt *rapid.T) *l1Step {
	kind := drawWeighted(rt, "op", w.cfg.weights)
	var st *l1Step
	switch kind {
	case "create":
		st = w.opCreate(rt)
	case "deposit":
		st = w.opDeposit(rt)
	case "propose":
		st = w.opPropose(rt)
	case "delete":
		st = w.opDelete(rt)
	case "claim":
		st = w.opClaim(rt)
	case "advance":
		st = w.opAdvance(rt)
	case "send":
		st = w.opSend(rt)
	case "role":
		st = w.opRole(rt)
	default:
		panic("unknown op " + kind)
	}
	if st == nil {
		st = &l1Step{Kind: "skip"}
	}
	return st
}

func (w *l1World) opCreate(rt *rapid.T, forceValid ...bool) *l1Step {
	if len(w.ids) >= w.cfg.maxBridges {
		return nil
	}
	creator, prop, chal := w.user(rt, "creator"), w.user(rt, "proposer"), w.user(rt, "challenger")
	period := w.cfg.periods[rapid.IntRange(0, len(w.cfg.periods)-1).Draw(rt, "period")]
	cfg := henv.DefaultBridgeConfig(prop.Str, chal.Str, period)
	cfg.BatchInfo.Submitter = w.user(rt, "submitter").Str
	if rapid.IntRange(0, 2).Draw(rt, "celestia") == 0 {
		cfg.BatchInfo.ChainType = ophosttypes.BatchInfo_CHAIN_TYPE_CELESTIA // the other supported data-availability chain
	}
	cfg.Metadata = drawMetadataBytes(rt)
	expect := "valid"
	if len(cfg.Metadata) > ophosttypes.MaxMetadataLength {
		expect = "invalid"
	}
	if len(forceValid) == 0 && rapid.IntRange(0, 99).Draw(rt, "badcfg") < w.cfg.badCfgProb {
		switch rapid.IntRange(0, 5).Draw(rt, "badkind") {
		case 0:
			cfg.FinalizationPeriod = 0
		case 1:
			cfg.FinalizationPeriod = -time.Hour
		case 2:
			cfg.FinalizationPeriod = -1
		case 3:
			cfg.SubmissionInterval = 0
		case 4:
			cfg.SubmissionStartHeight = 0
		case 5:
			cfg.Proposer = "notanaddress"
		}
		expect = "invalid"
	}
	msg := ophosttypes.NewMsgCreateBridge(creator.Str, cfg)
	st := &l1Step{Kind: "create", Signer: creator.Str, Msg: msg, Expect: expect, Allowed: []sdk.AccAddress{creator.Addr, w.feePool}}
	st.Res = w.e.Deliver(msg)
	if st.Res.OK() {
		id := st.Res.Resp.(*ophosttypes.MsgCreateBridgeResponse).BridgeId
		st.Bridge = id
		b := &mBridge{ID: id, Proposer: cfg.Proposer, Challenger: cfg.Challenger, Period: cfg.FinalizationPeriod, NextSeq: 1, NextWdSeq: 1,
			Paid: map[string]bool{}, Ledger: map[string]math.Int{}, Pairs: map[string]string{}}
		w.bridges[id] = b
		w.ids = append(w.ids, id)
		w.nextID = id + 1
		if len(w.active) > 0 {
			w.active = append(w.active, id)
		}
	}
	w.logf("create(by=%s period=%v expect=%s) -> id=%d err=%v", short(creator.Str), cfg.FinalizationPeriod, expect, st.Bridge, st.Res.Err)
	return st
}

func short(s string) string {
	if len(s) > 12 {
		return s[:6] + ".." + s[len(s)-4:]
	}
	return s
}

func (w *l1World) drawAmount(rt *rapid.T, bal math.Int) math.Int {
	switch drawWeighted(rt, "amtkind", []weighted{{"small", 6}, {"one", 1}, {"zero", 1}, {"bal", 1}, {"over", 1}, {"edge", 2}}) {
	case "zero":
		return math.ZeroInt()
	case "one":
		return math.OneInt()
	case "bal":
		return bal
	case "over":
		return bal.AddRaw(1)
	case "edge":
		s := rapid.SampledFrom([]string{"9223372036854775807", "9223372036854775808", "18446744073709551615", "18446744073709551616", "4294967296"}).Draw(rt, "edge")
		v, _ := math.NewIntFromString(s)
		return v
	default:
		return math.NewInt(int64(rapid.IntRange(2, 5_000_000).Draw(rt, "amt")))
	}
}

func (w *l1World) drawRecipientString(rt *rapid.T) string {
	switch rapid.IntRange(0, 4).Draw(rt, "tokind") {
	case 0, 1, 2:
		return w.user(rt, "to").Str
	case 3:
		if rapid.IntRange(0, 2).Draw(rt, "padded") == 0 {
			// a recipient with white space around it (L1 relays the string byte for byte)
			return rapid.SampledFrom([]string{" ", "\n", "\t", ""}).Draw(rt, "padl") + w.user(rt, "to").Str + rapid.SampledFrom([]string{" ", "\n", "\t ", "\r\n"}).Draw(rt, "padr")
		}
		return rapid.StringN(1, 20, 60).Draw(rt, "tostr")
	default:
		return "init1" + rapid.StringMatching("[a-z0-9]{10,38}").Draw(rt, "toinit")
	}
}

func (w *l1World) opDeposit(rt *rapid.T) *l1Step {
	var id uint64
	switch drawWeighted(rt, "idkind", []weighted{{"existing", 15}, {"next", 2}, {"far", 2}, {"zero", 1}}) {
	case "existing":
		if b := w.anyBridge(rt); b != nil {
			id = b.ID
		} else {
			id = w.nextID
		}
	case "next":
		id = w.nextID + uint64(rapid.IntRange(0, 1).Draw(rt, "ahead"))
	case "far":
		id = 77
	case "zero":
		id = 0
	}
	sender := w.user(rt, "sender")
	denom := w.denoms[rapid.IntRange(0, len(w.denoms)-1).Draw(rt, "denom")]
	amt := w.drawAmount(rt, w.e.Balance(sender.Addr, denom))
	if b, ok := w.bridges[id]; ok && len(b.Pairs) > 0 && rapid.IntRange(0, 11).Draw(rt, "twinDenom") == 0 {
		// the deposit names the token by the name it has on L2 (nobody holds coins of that name on L1)
		denom = ref.L2Denom(id, denom)
		if amt.IsZero() {
			amt = math.OneInt()
		}
	}
	to := w.drawRecipientString(rt)
	data := rapid.SliceOfN(rapid.Byte(), 0, 24).Draw(rt, "data")
	if rapid.IntRange(0, 9).Draw(rt, "jsonData") == 0 {
		// a payload that happens to be JSON with insignificant white space (L1 relays the bytes as they are)
		data = []byte(rapid.SampledFrom([]string{`{ "a" : 1 }`, "[1, 2,\n 3]", ` {"memo": "x y"} `, "{\t}"}).Draw(rt, "json"))
	}
	coin := sdk.Coin{Denom: denom, Amount: amt}
	senderStr := sender.Str
	if rapid.IntRange(0, 11).Draw(rt, "upperSender") == 0 {
		senderStr = strings.ToUpper(senderStr) // the all-upper-case spelling of the same address (valid bech32)
	}
	msg := ophosttypes.NewMsgInitiateTokenDeposit(senderStr, id, to, coin, data)
	_, existed := w.bridges[id]
	st := &l1Step{Kind: "deposit", Bridge: id, Signer: senderStr, Msg: msg, Existed: existed, Amount: coin,
		Allowed: []sdk.AccAddress{sender.Addr, escrowAddr(id)}}
	st.Res = w.e.Deliver(msg)
	if st.Res.OK() {
		if b, ok := w.bridges[id]; ok {
			b.NextSeq++
			b.addLedger(denom, amt)
			l2 := ref.L2Denom(id, denom)
			if _, ok := b.Pairs[l2]; !ok {
				b.Pairs[l2] = denom
			}
		} else {
			// accepted although no bridge exists (C10 judges that); keep the ledger of the
			// address consistent so that C01 only reports what C01 states
			w.ghostDeposits[id]++
			w.preSend(id, denom, amt)
		}
	}
	w.logf("deposit(bridge=%d existed=%v from=%s %s) -> err=%v", id, existed, short(sender.Str), coin, st.Res.Err)
	return st
}

func (b *mBridge) addLedger(denom string, v math.Int) {
	cur, ok := b.Ledger[denom]
	if !ok {
		cur = math.ZeroInt()
	}
	b.Ledger[denom] = cur.Add(v)
}

// newTuple invents a fresh L2 withdrawal for bridge b.
func (w *l1World) newTuple(rt *rapid.T, b *mBridge) wd {
	t := wd{Bridge: b.ID, Seq: b.NextWdSeq, From: "l2user" + fmt.Sprint(rapid.IntRange(0, 3).Draw(rt, "wfrom")),
		To: w.user(rt, "wto").Str, Denom: w.denoms[rapid.IntRange(0, len(w.denoms)-1).Draw(rt, "wdenom")],
		Amount: uint64(rapid.IntRange(1, 3_000_000).Draw(rt, "wamt"))}
	switch rapid.IntRange(0, 39).Draw(rt, "toOwnEscrow") {
	case 0, 1:
		t.To = sdk.AccAddress(escrowAddr(b.ID)).String() // a withdrawal addressed to the bridge's own escrow account
	case 2, 3:
		// ... to the escrow account of another bridge (an L2 user may name any L1 address)
		if ob := w.anyBridge(rt); ob != nil {
			t.To = sdk.AccAddress(escrowAddr(ob.ID)).String()
		}
	case 4, 5:
		// ... to a module account of L1 (the community pool's, the fee collector's)
		t.To = rapid.SampledFrom([]sdk.AccAddress{w.feePool, w.feeCollector}).Draw(rt, "wmodule").String()
	case 6, 7, 8:
		// the L2 user spelled the recipient in upper case (L2 takes the string as it is, L1 decodes it): this
		// spelling is the committed one, it is paid once to the account it decodes to
		t.To = strings.ToUpper(t.To)
	}
	// mostly withdraw what the escrow can pay (an L2 can only burn what was deposited)
	if rapid.IntRange(0, 9).Draw(rt, "funded") < 8 {
		for _, d := range w.denoms {
			if v, ok := b.Ledger[d]; ok && v.IsPositive() {
				t.Denom = d
				if v.IsUint64() && (v.Uint64() < t.Amount || rapid.IntRange(0, 4).Draw(rt, "drain") == 0) {
					t.Amount = v.Uint64() // everything the bridge holds of this token leaves with this withdrawal
				}
				break
			}
		}
	}
	if len(b.Pool) > 0 && rapid.IntRange(0, 14).Draw(rt, "dupSeq") == 0 {
		// another withdrawal under an L2 sequence number that was used before (L1 keys claims by their hash,
		// the number is just one of the hashed fields)
		t.Seq = b.Pool[rapid.IntRange(0, len(b.Pool)-1).Draw(rt, "dupOf")].Seq
	}
	b.NextWdSeq++
	b.Pool = append(b.Pool, t)
	return t
}

func (w *l1World) drawTuples(rt *rapid.T, b *mBridge) []wd {
	n := rapid.IntRange(1, 9).Draw(rt, "nleaves")
	var ts []wd
	for i := 0; i < n; i++ {
		if len(b.Pool) > 0 && rapid.IntRange(0, 9).Draw(rt, "reuse") < 4 {
			ts = append(ts, b.Pool[rapid.IntRange(0, len(b.Pool)-1).Draw(rt, "pool")])
		} else {
			ts = append(ts, w.newTuple(rt, b))
		}
	}
	return ts
}

func buildOutput(ts []wd, version byte, blockHash []byte) *mOutput {
	leaves := make([][32]byte, len(ts))
	for i, t := range ts {
		leaves[i] = t.leaf()
	}
	tree := ref.BuildTree(leaves)
	o := &mOutput{Version: version, BlockHash: blockHash, Tuples: ts, Tree: tree, Storage: tree.Root()}
	o.Root = ref.OutputRoot(version, o.Storage[:], blockHash)
	return o
}

// buildDeepOutput embeds the tree over ts (padded with pad to a power of two, so that it is an
// aligned subtree) as the left-most subtree of a tree that is len(extra) levels higher.
func buildDeepOutput(ts []wd, pad [][32]byte, extra [][]byte, version byte, blockHash []byte) *mOutput {
	leaves := make([][32]byte, 0, len(ts)+len(pad))
	for _, t := range ts {
		leaves = append(leaves, t.leaf())
	}
	leaves = append(leaves, pad...)
	tree := ref.BuildTree(leaves)
	o := &mOutput{Version: version, BlockHash: blockHash, Tuples: ts, Tree: tree, Extra: extra, Storage: ref.RootFromProof(tree.Root(), extra)}
	o.Root = ref.OutputRoot(version, o.Storage[:], blockHash)
	return o
}

// buildPathOutput is an output whose withdrawal tree is known only through one leaf and its
// sibling path (the other subtrees are other people's withdrawals): trees of any depth at no cost.
func buildPathOutput(t wd, siblings [][]byte, version byte, blockHash []byte) *mOutput {
	o := &mOutput{Version: version, BlockHash: blockHash, Tuples: []wd{t}, Synth: siblings, Storage: ref.RootFromProof(t.leaf(), siblings)}
	if o.Synth == nil {
		o.Synth = [][]byte{}
	}
	o.Root = ref.OutputRoot(version, o.Storage[:], blockHash)
	return o
}

func (w *l1World) opPropose(rt *rapid.T) *l1Step {
	b := w.anyBridge(rt)
	if b == nil {
		return nil
	}
	signer := b.Proposer
	sk := drawWeighted(rt, "signerkind", []weighted{{"proposer", 16}, {"other", 2}, {"authority", 1}, {"challenger", 1}})
	switch sk {
	case "other":
		signer = w.user(rt, "psigner").Str
	case "authority":
		signer = w.e.Authority
	case "challenger":
		signer = b.Challenger
	}
	next := uint64(len(b.Outputs) + 1)
	index := next
	switch drawWeighted(rt, "idxkind", []weighted{{"next", 16}, {"plus", 1}, {"minus", 1}, {"zero", 1}, {"rand", 1}}) {
	case "plus":
		index = next + 1
	case "minus":
		index = next - 1
	case "zero":
		index = 0
	case "rand":
		index = uint64(rapid.IntRange(0, 12).Draw(rt, "idx"))
	}
	var prev uint64
	if len(b.Outputs) > 0 {
		prev = b.Outputs[len(b.Outputs)-1].L2Block
	}
	l2b := prev + uint64(rapid.IntRange(1, 50).Draw(rt, "dl2"))
	switch drawWeighted(rt, "l2kind", []weighted{{"up", 16}, {"same", 1}, {"down", 1}, {"zero", 1}, {"max", 1}}) {
	case "same":
		l2b = prev
	case "down":
		if prev > 0 {
			l2b = prev - 1
		}
	case "zero":
		l2b = 0
	case "max":
		l2b = ^uint64(0)
	}
	if b.LastPropose != nil && len(b.Outputs) > 0 && rapid.IntRange(0, 11).Draw(rt, "replaylast") == 0 {
		// the proposer's last transaction is delivered a second time, byte for byte
		msg := *b.LastPropose
		st := &l1Step{Kind: "propose", Bridge: b.ID, Signer: msg.Proposer, Msg: &msg, OutIndex: msg.OutputIndex, Expect: "replay"}
		st.Res = w.e.Deliver(&msg)
		w.logf("propose(bridge=%d exact replay of the last accepted proposal index=%d next=%d) -> err=%v", b.ID, msg.OutputIndex, next, st.Res.Err)
		if st.Res.OK() {
			// the model follows the chain; C11 judges the acceptance
			last := *b.LastProposeOut
			last.Index, last.At, last.Height = msg.OutputIndex, w.e.Ctx.BlockTime(), w.e.Ctx.BlockHeight()
			b.Outputs = append(b.Outputs, &last)
		}
		return st
	}
	o := buildOutput(w.drawTuples(rt, b), byte(rapid.IntRange(0, 2).Draw(rt, "version")), rapid.SliceOfN(rapid.Byte(), 32, 32).Draw(rt, "blockhash"))
	msg := ophosttypes.NewMsgProposeOutput(signer, b.ID, index, l2b, append([]byte{}, o.Root[:]...))
	st := &l1Step{Kind: "propose", Bridge: b.ID, Signer: signer, Msg: msg, OutIndex: index}
	st.Res = w.e.Deliver(msg)
	if st.Res.OK() {
		o.Index, o.L2Block, o.At, o.Height = index, l2b, w.e.Ctx.BlockTime(), w.e.Ctx.BlockHeight()
		// model follows the chain: an accepted proposal is appended (C11 asserts index == next)
		b.Outputs = append(b.Outputs, o)
		st.Out = o
		b.LastPropose, b.LastProposeOut = msg, o
	}
	w.logf("propose(bridge=%d by=%s(%s) index=%d next=%d l2block=%d prev=%d leaves=%d) -> err=%v", b.ID, short(signer), sk, index, next, l2b, prev, len(o.Tuples), st.Res.Err)
	return st
}

// bulkDenoms deposits zero amounts of n distinct L1 denoms into bridge b (each registers a token pair):
// a bridge that knows far more than a page of tokens.
func (w *l1World) bulkDenoms(rt *rapid.T, b *mBridge, n int) {
	sender := w.user(rt, "bulksender")
	for k := 0; k < n; k++ {
		denom := fmt.Sprintf("ibc/%064X", k+1)
		r := w.e.Deliver(ophosttypes.NewMsgInitiateTokenDeposit(sender.Str, b.ID, sender.Str, sdk.NewCoin(denom, math.ZeroInt()), nil))
		if !r.OK() {
			rt.Fatalf("bulk deposit %d of 0%s refused: %v\nhistory:\n%s", k, denom, r.Err, w.history())
		}
		b.NextSeq++
		if l2 := ref.L2Denom(b.ID, denom); b.Pairs[l2] == "" {
			b.Pairs[l2] = denom
		}
	}
	w.logf("bulk: zero-amount deposits of %d distinct denoms into bridge %d", n, b.ID)
}

// bulkPropose lets the proposer of b submit n further outputs (one withdrawal each, L2 block numbers
// continuing the log) without moving the clock: a bridge with far more than a page of pending outputs.
func (w *l1World) bulkPropose(rt *rapid.T, b *mBridge, n int) {
	for k := 0; k < n; k++ {
		index := uint64(len(b.Outputs) + 1)
		l2b := uint64(1)
		if len(b.Outputs) > 0 {
			l2b = b.Outputs[len(b.Outputs)-1].L2Block + 1
		}
		if l2b == 0 {
			return // the log already ends at the largest L2 block number
		}
		o := buildOutput([]wd{w.newTuple(rt, b)}, 0, ref32(byte(k)))
		msg := ophosttypes.NewMsgProposeOutput(b.Proposer, b.ID, index, l2b, append([]byte{}, o.Root[:]...))
		r := w.e.Deliver(msg)
		if !r.OK() {
			rt.Fatalf("bulk proposal %d (index %d, l2 block %d) by the proposer refused: %v\nhistory:\n%s", k, index, l2b, r.Err, w.history())
		}
		o.Index, o.L2Block, o.At, o.Height = index, l2b, w.e.Ctx.BlockTime(), w.e.Ctx.BlockHeight()
		b.Outputs = append(b.Outputs, o)
		b.LastPropose, b.LastProposeOut = msg, o
		if n > 1000 && k == 5 && b.Period < 24*time.Hour {
			// a long-lived bridge: its first outputs are final long before the thousandth is proposed
			w.e.Advance(b.Period + time.Second)
		}
	}
	w.logf("bulk: %d further outputs proposed on bridge %d (now %d)", n, b.ID, len(b.Outputs))
}

func (w *l1World) opDelete(rt *rapid.T) *l1Step {
	b := w.anyBridge(rt)
	if b == nil {
		return nil
	}
	signer := b.Challenger
	sk := drawWeighted(rt, "signerkind", []weighted{{"challenger", 10}, {"proposer", 3}, {"authority", 3}, {"other", 3}})
	switch sk {
	case "proposer":
		signer = b.Proposer
	case "authority":
		signer = w.e.Authority
	case "other":
		signer = w.user(rt, "dsigner").Str
	}
	next := uint64(len(b.Outputs) + 1)
	var index uint64
	switch drawWeighted(rt, "idxkind", []weighted{{"live", 14}, {"next", 2}, {"zero", 1}, {"big", 1}}) {
	case "live":
		if next > 1 {
			index = uint64(rapid.IntRange(1, int(next-1)).Draw(rt, "idx"))
		} else {
			index = 1
		}
	case "next":
		index = next
	case "zero":
		index = 0
	case "big":
		index = next + 5
	}
	msg := ophosttypes.NewMsgDeleteOutput(signer, b.ID, index)
	st := &l1Step{Kind: "delete", Bridge: b.ID, Signer: signer, Msg: msg, OutIndex: index}
	if index >= 1 && index < next {
		st.Out = b.Outputs[index-1]
	}
	st.Res = w.e.Deliver(msg)
	if st.Res.OK() && index >= 1 && index <= uint64(len(b.Outputs)) {
		b.Deleted = append(b.Deleted, b.Outputs[index-1:]...)
		b.Outputs = b.Outputs[:index-1]
	}
	w.logf("delete(bridge=%d by=%s(%s) index=%d next=%d) -> err=%v", b.ID, short(signer), sk, index, next, st.Res.Err)
	return st
}

// claimMsg builds the finalization message for tuple t at position pos of output o.
func claimMsg(submitter string, t wd, o *mOutput, index uint64, pos int) *ophosttypes.MsgFinalizeTokenWithdrawal {
	var proof [][]byte
	if o.Tree != nil && pos >= 0 {
		proof, _ = o.Tree.Proof(pos)
		for _, it := range o.Extra {
			proof = append(proof, append([]byte{}, it...))
		}
	} else if o.Tree == nil && o.Synth != nil {
		for _, it := range o.Synth {
			proof = append(proof, append([]byte{}, it...))
		}
	}
	return ophosttypes.NewMsgFinalizeTokenWithdrawal(submitter, t.Bridge, index, t.Seq, proof, t.From, t.To,
		sdk.NewCoin(t.Denom, math.NewIntFromUint64(t.Amount)), []byte{o.Version}, append([]byte{}, o.Storage[:]...), append([]byte{}, o.BlockHash...))
}

func (w *l1World) opClaim(rt *rapid.T) *l1Step {
	b := w.anyBridge(rt)
	if b == nil || (len(b.Outputs) == 0 && len(b.Deleted) == 0) {
		return nil
	}
	submitter := w.user(rt, "submitter")
	var o *mOutput
	live := false
	if len(b.Outputs) > 0 && (len(b.Deleted) == 0 || rapid.IntRange(0, 9).Draw(rt, "livekind") < 8) {
		o = b.Outputs[rapid.IntRange(0, len(b.Outputs)-1).Draw(rt, "out")]
		if must, _ := w.finalByModel(b, o); !must && rapid.IntRange(0, 9).Draw(rt, "preferfinal") < 6 {
			for _, cand := range b.Outputs {
				if m, _ := w.finalByModel(b, cand); m {
					o = cand
					break
				}
			}
		}
		live = true
		if must, _ := w.finalByModel(b, o); !must && !w.cfg.noAutoAdvance && rapid.IntRange(0, 9).Draw(rt, "autoadvance") < 6 {
			// let the challenge window of this output pass first (time is part of the step)
			w.e.AdvanceTo(o.At.Add(b.Period).Add(time.Duration(rapid.IntRange(0, 2).Draw(rt, "slack")) * time.Second))
			w.logf("advance(auto) -> now=%s", w.e.Ctx.BlockTime().Format(time.RFC3339Nano))
		}
	} else {
		o = b.Deleted[rapid.IntRange(0, len(b.Deleted)-1).Draw(rt, "delout")]
		// a deleted output may have been replaced at the same index by a re-proposal
	}
	pos := rapid.IntRange(0, len(o.Tuples)-1).Draw(rt, "pos")
	t := o.Tuples[pos]
	index := o.Index
	okBuilt := true
	variant := drawWeighted(rt, "claimkind", []weighted{{"valid", 14}, {"otherindex", 2}, {"otherbridge", 2}, {"foreign", 1}, {"respell", 2}, {"respell-denom", 1}})
	switch variant {
	case "respell-denom":
		// the token under the name it has on L2 (the bridge may know the pair): not the committed withdrawal
		t.Denom = ref.L2Denom(t.Bridge, t.Denom)
		okBuilt = false
	case "otherindex":
		// same proof material offered against another index of the same bridge
		if len(b.Outputs) > 0 {
			index = b.Outputs[rapid.IntRange(0, len(b.Outputs)-1).Draw(rt, "oidx")].Index
			okBuilt = index == o.Index
		}
	case "otherbridge":
		// replay on another bridge: same fields but that bridge's id
		if ob := w.anyBridge(rt); ob != nil && ob.ID != b.ID {
			t.Bridge = ob.ID
			okBuilt = false
		}
	case "respell":
		// the same account under another valid spelling of its address: not the committed withdrawal
		if t.To == strings.ToUpper(t.To) {
			t.To = strings.ToLower(t.To)
		} else {
			t.To = strings.ToUpper(t.To)
		}
		okBuilt = false
	case "foreign":
		// a tuple that is in the pool but not in this tree
		if len(b.Pool) > 0 {
			t = b.Pool[rapid.IntRange(0, len(b.Pool)-1).Draw(rt, "ft")]
			okBuilt = false
			for i, x := range o.Tuples {
				if x.key() == t.key() {
					pos, okBuilt = i, true
					break
				}
			}
		}
	}
	msg := claimMsg(submitter.Str, t, o, index, pos)
	toAddr, _ := sdk.AccAddressFromBech32(t.To)
	st := &l1Step{Kind: "claim", Bridge: t.Bridge, Signer: submitter.Str, Msg: msg, Tuple: &t, OutIndex: index, Out: o,
		OutLive: live && index == o.Index, ClaimOK: okBuilt && live, Expect: variant,
		Allowed: []sdk.AccAddress{escrowAddr(t.Bridge), toAddr}}
	st.Res = w.e.Deliver(msg)
	if st.Res.OK() {
		if tb, ok := w.bridges[t.Bridge]; ok {
			tb.Paid[t.key()] = true
			tb.addLedger(t.Denom, math.NewIntFromUint64(t.Amount).Neg())
			// a payout to an address that is itself an escrow (the bridge's own or another bridge's) arrives there
			for _, id := range w.ids {
				if toAddr.Equals(sdk.AccAddress(escrowAddr(id))) {
					w.bridges[id].addLedger(t.Denom, math.NewIntFromUint64(t.Amount))
				}
			}
		}
	}
	w.logf("claim(bridge=%d index=%d seq=%d %d%s to=%s kind=%s live=%v) -> err=%v", t.Bridge, index, t.Seq, t.Amount, t.Denom, short(t.To), variant, live, st.Res.Err)
	return st
}

func (w *l1World) opAdvance(rt *rapid.T) *l1Step {
	now := w.e.Ctx.BlockTime()
	var d time.Duration
	kind := drawWeighted(rt, "advkind", []weighted{{"small", 4}, {"boundary", 8}, {"zero", 1}, {"large", 2}})
	switch kind {
	case "zero":
		d = 0
	case "small":
		d = time.Duration(rapid.Int64Range(1, int64(3*time.Second)).Draw(rt, "dt"))
	case "large":
		d = time.Duration(rapid.Int64Range(int64(time.Hour), int64(30*24*time.Hour)).Draw(rt, "dt"))
	case "boundary":
		// jump next to the finalization boundary of some pending output
		var cands []time.Time
		for _, id := range w.ids {
			b := w.bridges[id]
			for _, o := range b.Outputs {
				ft := o.At.Add(b.Period)
				if ft.After(now.Add(-2 * time.Second)) {
					cands = append(cands, ft)
				}
			}
		}
		if len(cands) == 0 {
			d = time.Second
			break
		}
		ft := cands[rapid.IntRange(0, len(cands)-1).Draw(rt, "which")]
		offs := w.cfg.offsets
		if offs == nil {
			offs = []time.Duration{0, time.Second, time.Minute, time.Nanosecond, -time.Nanosecond, -time.Second}
		}
		off := rapid.SampledFrom(offs).Draw(rt, "off")
		w.e.AdvanceTo(ft.Add(off))
		w.logf("advance(boundary%+v) -> now=%s", off, w.e.Ctx.BlockTime().Format(time.RFC3339Nano))
		return &l1Step{Kind: "advance", Res: henv.Result{}}
	}
	w.e.Advance(d)
	w.logf("advance(%s %v) -> now=%s", kind, d, w.e.Ctx.BlockTime().Format(time.RFC3339Nano))
	return &l1Step{Kind: "advance", TimeDelta: d, Res: henv.Result{}}
}

func (w *l1World) opSend(rt *rapid.T) *l1Step {
	from := w.user(rt, "from")
	var to sdk.AccAddress
	var target uint64
	switch rapid.IntRange(0, 3).Draw(rt, "sendto") {
	case 0:
		to = w.user(rt, "to").Addr
	case 1, 2:
		if b := w.anyBridge(rt); b != nil {
			to, target = escrowAddr(b.ID), b.ID
		} else {
			to = w.user(rt, "to2").Addr
		}
	case 3:
		target = w.nextID
		to = escrowAddr(target) // escrow of a bridge that does not exist yet
	}
	denom := w.denoms[rapid.IntRange(0, len(w.denoms)-1).Draw(rt, "denom")]
	amt := math.NewInt(int64(rapid.IntRange(1, 1_000_000).Draw(rt, "amt")))
	msg := banktypes.NewMsgSend(from.Addr, to, sdk.NewCoins(sdk.NewCoin(denom, amt)))
	st := &l1Step{Kind: "send", Signer: from.Str, Msg: msg, Allowed: []sdk.AccAddress{from.Addr, to}}
	st.Res = w.e.Deliver(msg)
	if st.Res.OK() && target != 0 {
		if b, ok := w.bridges[target]; ok {
			b.addLedger(denom, amt)
		} else {
			w.stats["presend"]++
			// remembered so that the ledger of a later-created bridge starts from it
			w.preSend(target, denom, amt)
		}
	}
	w.logf("send(from=%s to=%s %s%s) -> err=%v", short(from.Str), short(to.String()), amt, denom, st.Res.Err)
	return st
}

var _ = sort.Strings

func (w *l1World) preSend(id uint64, denom string, amt math.Int) {
	// direct transfers to the future escrow address of a bridge id: kept in a shadow bridge
	sh, ok := w.bridges[id|1<<63]
	if !ok {
		sh = &mBridge{ID: id, Ledger: map[string]math.Int{}}
		w.bridges[id|1<<63] = sh
	}
	sh.addLedger(denom, amt)
}

// expectedEscrow returns the model balance of bridge id's escrow in denom.
func (w *l1World) expectedEscrow(id uint64, denom string) math.Int {
	total := math.ZeroInt()
	if b, ok := w.bridges[id]; ok {
		if v, ok := b.Ledger[denom]; ok {
			total = total.Add(v)
		}
	}
	if sh, ok := w.bridges[id|1<<63]; ok {
		if v, ok := sh.Ledger[denom]; ok {
			total = total.Add(v)
		}
	}
	return total
}

func (w *l1World) opRole(rt *rapid.T) *l1Step {
	b := w.anyBridge(rt)
	if b == nil {
		return nil
	}
	kind := rapid.SampledFrom([]string{"proposer", "challenger", "batch", "metadata", "oracle"}).Draw(rt, "rolekind")
	cands := []string{b.Proposer, b.Challenger, w.e.Authority, w.user(rt, "rsigner").Str}
	cands = append(cands, b.FormerProp...)
	cands = append(cands, b.FormerChal...)
	signer := cands[rapid.IntRange(0, len(cands)-1).Draw(rt, "signer")]
	nu := w.user(rt, "newholder")
	var msg sdk.Msg
	switch kind {
	case "proposer":
		msg = ophosttypes.NewMsgUpdateProposer(signer, b.ID, nu.Str)
	case "challenger":
		msg = ophosttypes.NewMsgUpdateChallenger(signer, b.ID, nu.Str)
	case "batch":
		// the submitter is whatever names the account on the data-availability chain: only "not empty" is required
		submitter := rapid.SampledFrom([]string{nu.Str, nu.Str, "batch-submitter-01", "celestia1qqqsyqcyq5rqwzqfpg9scrgwpugpzysn3xzs4l", strings.ToUpper(nu.Str), "提出者"}).Draw(rt, "submitter")
		bi := ophosttypes.BatchInfo{Submitter: submitter, ChainType: ophosttypes.BatchInfo_ChainType(rapid.SampledFrom([]int32{1, 2, 1, 2, 1, 2, 0, 7}).Draw(rt, "chain"))} // 0 = unspecified, 7 = not a chain type at all
		if b.LastBatch != nil && rapid.IntRange(0, 3).Draw(rt, "retryBatch") == 0 {
			bi = *b.LastBatch // the same update once more (a retried transaction): the history gets a second, equal entry
		}
		msg = ophosttypes.NewMsgUpdateBatchInfo(signer, b.ID, bi)
	case "metadata":
		msg = ophosttypes.NewMsgUpdateMetadata(signer, b.ID, drawMetadataBytes(rt))
	case "oracle":
		msg = ophosttypes.NewMsgUpdateOracleConfig(signer, b.ID, rapid.Bool().Draw(rt, "oracle"))
	}
	st := &l1Step{Kind: "role:" + kind, Bridge: b.ID, Signer: signer, Msg: msg}
	st.Res = w.e.Deliver(msg)
	if st.Res.OK() {
		switch kind {
		case "proposer":
			if b.Proposer != nu.Str {
				b.FormerProp = append(b.FormerProp, b.Proposer)
			}
			b.Proposer = nu.Str
		case "challenger":
			if b.Challenger != nu.Str {
				b.FormerChal = append(b.FormerChal, b.Challenger)
			}
			b.Challenger = nu.Str
		case "batch":
			last := msg.(*ophosttypes.MsgUpdateBatchInfo).NewBatchInfo
			b.LastBatch = &last
		}
	}
	w.logf("role(%s bridge=%d by=%s new=%s) -> err=%v", kind, b.ID, short(signer), short(nu.Str), st.Res.Err)
	return st
}

// finalByModel says whether output o of bridge b is final at the current block time under
// the statement's one-second granularity: (must be final, may be final).
func (w *l1World) finalByModel(b *mBridge, o *mOutput) (must, may bool) {
	now := w.e.Ctx.BlockTime()
	ft := o.At.Add(b.Period)
	must = !now.Before(ft)                // now >= t + P
	may = now.After(ft.Add(-time.Second)) // now > t + P - 1s
	return
}

func (w *l1World) history() string { return strings.Join(w.log, "\n") }

// restart exports the chain and starts a fresh one from that genesis (as it stands in memory; C16 and the
// two-chain machines go through JSON). Block time goes on. The block height goes on as well, or - a new
// chain started from an exported state need not keep its numbering - starts again at 1 or a few blocks
// below the height recorded in one of the stored outputs, so that the new chain passes that number again.
func (w *l1World) restart(rt *rapid.T) {
	if len(w.ids) > 60 && rapid.IntRange(0, 3).Draw(rt, "restartBigChain") != 0 {
		// exporting a chain with hundreds of bridges is slow in this environment (nothing is ever committed to the
		// database): such chains restart a quarter as often
		return
	}
	gs := w.e.K.ExportGenesis(w.e.Ctx)
	h := w.e.Ctx.BlockHeight()
	switch rapid.IntRange(0, 5).Draw(rt, "restartHeight") {
	case 0:
		h = 1
	case 1, 2:
		var hs []int64
		for _, id := range w.ids {
			for _, o := range w.bridges[id].Outputs {
				hs = append(hs, o.Height)
			}
		}
		if len(hs) > 0 {
			if h = hs[rapid.IntRange(0, len(hs)-1).Draw(rt, "restartAt")] - int64(rapid.IntRange(0, 2).Draw(rt, "restartBelow")); h < 1 {
				h = 1
			}
		}
	}
	n := importL1(w.e, gs)
	n.Ctx = n.Ctx.WithBlockHeight(h)
	w.logf("genesis export -> import (height %d -> %d)", w.e.Ctx.BlockHeight(), h)
	w.e = n
}

// allHashes returns the leaf hash of every tuple ever generated for bridge id.
func (w *l1World) allTuples() []wd {
	var out []wd
	for _, id := range w.ids {
		out = append(out, w.bridges[id].Pool...)
	}
	return out
}

func parseCoins(s string) (sdk.Coins, error) {
	if s == "" {
		return sdk.Coins{}, nil
	}
	return sdk.ParseCoinsNormalized(s)
}

func coinOf(denom string, n int64) sdk.Coin { return sdk.NewCoin(denom, math.NewInt(n)) }

// escrowAddr is where the escrow of a bridge must live according to the documented derivation
// (independent implementation): the checks never ask the code under test for the address.
func escrowAddr(id uint64) sdk.AccAddress { return sdk.AccAddress(ref.BridgeAddress(id)) }

// drawMetadataBytes: mostly a few bytes, sometimes exactly at / around the documented maximum length.
func drawMetadataBytes(rt *rapid.T) []byte {
	switch rapid.IntRange(0, 11).Draw(rt, "mdlen") {
	case 0:
		return bytesOfLen(ophosttypes.MaxMetadataLength)
	case 1:
		return bytesOfLen(ophosttypes.MaxMetadataLength - 1)
	case 2:
		return bytesOfLen(ophosttypes.MaxMetadataLength + 1)
	}
	return rapid.SliceOfN(rapid.Byte(), 0, 16).Draw(rt, "md")
}

func bytesOfLen(n int) []byte {
	b := make([]byte, n)
	for i := range b {
		b[i] = byte('a' + i%26)
	}
	return b
}
