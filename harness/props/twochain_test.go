package props

import (
	"crypto/sha256"
	"encoding/hex"
	"fmt"
	banktypes "github.com/cosmos/cosmos-sdk/x/bank/types"
	"pgregory.net/rapid"
	"strconv"
	"time"

	"cosmossdk.io/math"
	sdk "github.com/cosmos/cosmos-sdk/types"

	opchildtypes "github.com/initia-labs/OPinit/x/opchild/types"
	ophosttypes "github.com/initia-labs/OPinit/x/ophost/types"

	"verifharness/henv"
	"verifharness/ref"
)

// twoChain joins an L1 and an L2 environment only through events, the way the off-chain
// executor does: L1 initiate_token_deposit events become MsgFinalizeTokenDeposit, L2
// initiate_token_withdrawal events become leaves of output trees and L1 claims.
type twoChain struct {
	l1       *henv.L1
	l2       *henv.L2
	bridgeID uint64
	opts     tcOpts
	// neighbours: ids of the other bridges on the same L1 (created before or after ours)
	neighbours []uint64
	info       opchildtypes.BridgeInfo
	infoSet    bool
	users      []henv.User // same keys on both chains (same bech32 prefix)
	executors  []henv.User
	admin      henv.User
	proposer   henv.User
	chal       henv.User
	period     time.Duration
	log        []string
	// resendProposals: every accepted output proposal is delivered a second time
	resendProposals bool
}

// pendingDeposit is what the executor reads from one L1 deposit event.
type pendingDeposit struct {
	Seq      uint64
	From, To string
	L1Denom  string
	L2Denom  string
	Amount   math.Int
	Data     []byte
	L1Height uint64
}

func (tc *twoChain) logf(f string, a ...interface{}) { tc.log = append(tc.log, fmt.Sprintf(f, a...)) }

type tcOpts struct {
	nExecutors int
	fault      bool
	period     time.Duration
	otherFirst int // number of bridges created before ours (so that our id is not 1)
	// fromGenesis: the L2 starts through InitGenesis(default genesis) as a real chain does
	fromGenesis bool
	// otherAfter: number of bridges created after ours (neighbours with a higher id)
	otherAfter int
	// lateBridgeInfo: the L2 does not know its bridge yet; registerBridgeInfo is called during the history
	lateBridgeInfo bool
}

func newTwoChain(o tcOpts) *twoChain {
	if o.nExecutors == 0 {
		o.nExecutors = 1
	}
	if o.period == 0 {
		o.period = 10 * time.Second
	}
	tc := &twoChain{period: o.period}
	for i := 0; i < 5; i++ {
		tc.users = append(tc.users, henv.MakeUser(fmt.Sprintf("tc-user-%d", i)))
	}
	for i := 0; i < o.nExecutors; i++ {
		tc.executors = append(tc.executors, henv.MakeUser(fmt.Sprintf("tc-exec-%d", i)))
	}
	tc.admin, tc.proposer, tc.chal = henv.MakeUser("tc-admin"), henv.MakeUser("tc-proposer"), henv.MakeUser("tc-challenger")
	tc.l1 = henv.NewL1(henv.L1Options{NoHook: true})
	var execs []string
	for _, e := range tc.executors {
		execs = append(execs, e.Str)
	}
	tc.l2 = henv.NewL2(henv.L2Options{Admin: tc.admin.Str, Executors: execs, WithFault: o.fault, FromGenesis: o.fromGenesis})
	tc.opts = o
	for i := 0; i <= o.otherFirst; i++ {
		cfg := henv.DefaultBridgeConfig(tc.proposer.Str, tc.chal.Str, tc.period)
		r := tc.l1.Deliver(ophosttypes.NewMsgCreateBridge(tc.proposer.Str, cfg))
		if !r.OK() {
			panic(r.Err)
		}
		tc.bridgeID = r.Resp.(*ophosttypes.MsgCreateBridgeResponse).BridgeId
	}
	for i := 0; i < o.otherFirst; i++ {
		tc.neighbours = append(tc.neighbours, tc.bridgeID-uint64(i)-1)
	}
	for i := 0; i < o.otherAfter; i++ {
		r := tc.l1.Deliver(ophosttypes.NewMsgCreateBridge(tc.proposer.Str, henv.DefaultBridgeConfig(tc.proposer.Str, tc.chal.Str, tc.period)))
		if !r.OK() {
			panic(r.Err)
		}
		tc.neighbours = append(tc.neighbours, r.Resp.(*ophosttypes.MsgCreateBridgeResponse).BridgeId)
	}
	cfg := henv.DefaultBridgeConfig(tc.proposer.Str, tc.chal.Str, tc.period)
	tc.info = opchildtypes.BridgeInfo{BridgeId: tc.bridgeID, BridgeAddr: ophosttypes.BridgeAddress(tc.bridgeID).String(), L1ChainId: "l1-chain", L1ClientId: "07-tendermint-0", BridgeConfig: cfg}
	if !o.lateBridgeInfo {
		tc.registerBridgeInfo()
	}
	for _, u := range tc.users {
		tc.l1.Fund(u.Addr, coinOf("uinit", 1_000_000_000), coinOf("uusdc", 1_000_000_000))
	}
	return tc
}

// l1Deposit sends a deposit on L1 and, if accepted, returns what the executor would relay.
func (tc *twoChain) l1Deposit(sender henv.User, to string, coin sdk.Coin, data []byte) (henv.Result, *pendingDeposit) {
	r := tc.l1.Deliver(ophosttypes.NewMsgInitiateTokenDeposit(sender.Str, tc.bridgeID, to, coin, data))
	if !r.OK() {
		return r, nil
	}
	evs := henv.EventAttrs(r.Events, ophosttypes.EventTypeInitiateTokenDeposit)
	if len(evs) != 1 {
		panic(fmt.Sprintf("relay: %d deposit events", len(evs)))
	}
	return r, parseDepositEvent(evs[0], uint64(tc.l1.Ctx.BlockHeight()))
}

func parseDepositEvent(ev map[string]string, height uint64) *pendingDeposit {
	seq, err := strconv.ParseUint(ev[ophosttypes.AttributeKeyL1Sequence], 10, 64)
	if err != nil {
		panic(err)
	}
	amt, ok := math.NewIntFromString(ev[ophosttypes.AttributeKeyAmount])
	if !ok {
		panic("relay: bad amount " + ev[ophosttypes.AttributeKeyAmount])
	}
	data, err := hex.DecodeString(ev[ophosttypes.AttributeKeyData])
	if err != nil {
		panic(err)
	}
	return &pendingDeposit{Seq: seq, From: ev[ophosttypes.AttributeKeyFrom], To: ev[ophosttypes.AttributeKeyTo], L1Denom: ev[ophosttypes.AttributeKeyL1Denom],
		L2Denom: ev[ophosttypes.AttributeKeyL2Denom], Amount: amt, Data: data, L1Height: height}
}

// relayMsg is the executor's translation of a deposit event.
func relayMsg(executor string, d *pendingDeposit) *opchildtypes.MsgFinalizeTokenDeposit {
	return opchildtypes.NewMsgFinalizeTokenDeposit(executor, d.From, d.To, sdk.Coin{Denom: d.L2Denom, Amount: d.Amount}, d.Seq, d.L1Height, d.L1Denom, d.Data)
}

// l2Withdrawal is one initiate_token_withdrawal event as the executor reads it.
type l2Withdrawal struct {
	Seq       uint64
	From, To  string
	Denom     string
	BaseDenom string
	Amount    math.Int
}

func parseWithdrawalEvents(evs sdk.Events) []l2Withdrawal {
	var out []l2Withdrawal
	for _, ev := range henv.EventAttrs(evs, opchildtypes.EventTypeInitiateTokenWithdrawal) {
		seq, err := strconv.ParseUint(ev[opchildtypes.AttributeKeyL2Sequence], 10, 64)
		if err != nil {
			panic(err)
		}
		amt, ok := math.NewIntFromString(ev[opchildtypes.AttributeKeyAmount])
		if !ok {
			panic("relay: bad amount")
		}
		out = append(out, l2Withdrawal{Seq: seq, From: ev[opchildtypes.AttributeKeyFrom], To: ev[opchildtypes.AttributeKeyTo], Denom: ev[opchildtypes.AttributeKeyDenom],
			BaseDenom: ev[opchildtypes.AttributeKeyBaseDenom], Amount: amt})
	}
	return out
}

// leafOf commits a withdrawal the way the published rule says (amount as 64-bit integer);
// ok is false when the amount does not fit the commitment format.
func (tc *twoChain) leafOf(w l2Withdrawal) (t wd, ok bool) {
	if !w.Amount.IsUint64() {
		return wd{}, false
	}
	return wd{Bridge: tc.bridgeID, Seq: w.Seq, From: w.From, To: w.To, Denom: w.BaseDenom, Amount: w.Amount.Uint64()}, true
}

// proposeTree builds the output over ws (in sequence order) and proposes it on L1.
func (tc *twoChain) proposeTree(ts []wd, l2Block uint64) (*mOutput, henv.Result) {
	return tc.proposeDeepTree(ts, l2Block, 0)
}

// proposeDeepTree: the withdrawals ts are the first leaves of an output that covers 2^(k+extraLevels)
// withdrawals in all; the other leaves (other users' withdrawals) are fixed synthetic hashes.
func (tc *twoChain) proposeDeepTree(ts []wd, l2Block uint64, extraLevels int) (*mOutput, henv.Result) {
	var o *mOutput
	if extraLevels == 0 {
		o = buildOutput(ts, 0, ref32(byte(l2Block)))
	} else {
		size := 1
		for size < len(ts) {
			size *= 2
		}
		var pad [][32]byte
		for i := len(ts); i < size; i++ {
			pad = append(pad, sha256.Sum256([]byte(fmt.Sprintf("other withdrawal %d", i))))
		}
		var extra [][]byte
		for i := 0; i < extraLevels; i++ {
			h := sha256.Sum256([]byte(fmt.Sprintf("other subtree at level %d", i)))
			extra = append(extra, h[:])
		}
		o = buildDeepOutput(ts, pad, extra, 0, ref32(byte(l2Block)))
	}
	next, _ := tc.l1.K.GetNextOutputIndex(tc.l1.Ctx, tc.bridgeID)
	msg := ophosttypes.NewMsgProposeOutput(tc.proposer.Str, tc.bridgeID, next, l2Block, o.Root[:])
	r := tc.l1.Deliver(msg)
	if r.OK() {
		o.Index, o.L2Block, o.At = next, l2Block, tc.l1.Ctx.BlockTime()
		if tc.resendProposals {
			// the proposer's transaction is broadcast a second time (a timeout on its side): whatever L1 answers,
			// the log of outputs goes on gap-free
			rr := tc.l1.Deliver(ophosttypes.NewMsgProposeOutput(tc.proposer.Str, tc.bridgeID, next, l2Block, o.Root[:]))
			tc.logf("proposal %d sent a second time -> %v", next, rr.Err)
		}
	}
	return o, r
}

func ref32(b byte) []byte {
	out := make([]byte, 32)
	for i := range out {
		out[i] = b
	}
	return out
}

var _ = ref.Leaf

// restartL2 exports the L2 (accounts, balances, opchild) and starts a fresh chain from that
// genesis at the same height and time; the new chain replaces tc.l2.
func (tc *twoChain) restartL2() {
	old := tc.l2
	var execs []string
	for _, e := range tc.executors {
		execs = append(execs, e.Str)
	}
	n := henv.NewL2(henv.L2Options{Admin: tc.admin.Str, Executors: execs, WithFault: tc.opts.fault})
	n.Ctx = n.Ctx.WithBlockHeight(old.Ctx.BlockHeight()).WithBlockTime(old.Ctx.BlockTime()).WithBlockHeader(old.Ctx.BlockHeader()).WithConsensusParams(old.Ctx.ConsensusParams())
	n.AK.InitGenesis(n.Ctx, *old.AK.ExportGenesis(old.Ctx))
	n.BK.InitGenesis(n.Ctx, old.BK.ExportGenesis(old.Ctx))
	var gs opchildtypes.GenesisState
	n.Enc.Marshaler.MustUnmarshalJSON(old.Enc.Marshaler.MustMarshalJSON(old.K.ExportGenesis(old.Ctx)), &gs)
	n.K.InitGenesis(n.Ctx.WithBlockHeight(0), &gs) // InitChain runs at height 0
	tc.l2 = n
	tc.logf("L2 genesis export -> import")
}

// restartL1 exports the L1 (accounts, balances, ophost) and starts a fresh chain from that genesis
// (through its JSON form) at the same height and time; the new chain replaces tc.l1.
func (tc *twoChain) restartL1(renumber ...bool) {
	old := tc.l1
	var gs ophosttypes.GenesisState
	old.Enc.Marshaler.MustUnmarshalJSON(old.Enc.Marshaler.MustMarshalJSON(old.K.ExportGenesis(old.Ctx)), &gs)
	tc.l1 = importL1(old, &gs)
	if len(renumber) > 0 && renumber[0] {
		// the new chain numbers its blocks from 1 again (block time goes on)
		tc.l1.Ctx = tc.l1.Ctx.WithBlockHeight(1)
	}
	tc.logf("L1 genesis export -> import (height %d -> %d)", old.Ctx.BlockHeight(), tc.l1.Ctx.BlockHeight())
}

// neighbourChallenge is ordinary life on another bridge of the same L1: its proposer submits two
// outputs and its challenger deletes one of them (from index `from`, 1 = everything pending).
// None of it may touch our bridge. It reports what happened for the log.
func (tc *twoChain) neighbourChallenge(id uint64, from uint64) string {
	next, _ := tc.l1.K.GetNextOutputIndex(tc.l1.Ctx, id)
	var l2b uint64 = 1
	if next > 1 {
		if last, err := tc.l1.K.GetOutputProposal(tc.l1.Ctx, id, next-1); err == nil {
			l2b = last.L2BlockNumber + 1
		}
	}
	for k := uint64(0); k < 2; k++ {
		if r := tc.l1.Deliver(ophosttypes.NewMsgProposeOutput(tc.proposer.Str, id, next+k, l2b+k, ref32(byte(7+k)))); !r.OK() {
			return fmt.Sprintf("neighbour %d: propose %d refused: %v", id, next+k, r.Err)
		}
	}
	idx := next + 1
	if from == 1 {
		idx = 1
	}
	r := tc.l1.Deliver(ophosttypes.NewMsgDeleteOutput(tc.chal.Str, id, idx))
	return fmt.Sprintf("neighbour bridge %d: outputs %d,%d proposed, delete from %d -> %v", id, next, next+1, idx, r.Err)
}

// registerBridgeInfo is the executor's first MsgSetBridgeInfo (binding the L2 to its bridge).
func (tc *twoChain) registerBridgeInfo() {
	if tc.infoSet {
		return
	}
	if r := tc.l2.Deliver(opchildtypes.NewMsgSetBridgeInfo(tc.executors[0].Str, tc.info)); !r.OK() {
		panic(r.Err)
	}
	tc.infoSet = true
	tc.logf("bridge info registered on L2")
}

// presetBankMetadata writes display metadata for an L2 denom into the bank module before the bridge has
// seen the token (an operator's bank genesis can contain it): either the plain form (display = base) or
// one with a display unit of another name, as wallets like it. The bridge's denom pair is a different
// record; the metadata says nothing about where the token comes from.
func presetBankMetadata(rt *rapid.T, l2 *henv.L2, d string) {
	md := banktypes.Metadata{Base: d, Display: d, Name: "preset", Symbol: "PRE", DenomUnits: []*banktypes.DenomUnit{{Denom: d, Exponent: 0}}}
	if rapid.Bool().Draw(rt, "prettyDisplayUnit") {
		md.Display = "pretty"
		md.DenomUnits = append(md.DenomUnits, &banktypes.DenomUnit{Denom: "pretty", Exponent: 6})
	}
	l2.BK.SetDenomMetaData(l2.Ctx, md)
}
