package props

import (
	"encoding/hex"
	"fmt"
	"strconv"
	"strings"
	"testing"
	"time"

	sdk "github.com/cosmos/cosmos-sdk/types"
	"github.com/cosmos/cosmos-sdk/types/query"
	"pgregory.net/rapid"

	ophosttypes "github.com/initia-labs/OPinit/x/ophost/types"

	"verifharness/evid"
	"verifharness/henv"
	"verifharness/ref"
)

var c10Weights = []weighted{{"deposit", 14}, {"create", 4}, {"role", 3}, {"send", 1}, {"advance", 1}, {"propose", 3}, {"delete", 3}, {"claim", 1}}

// c10AfterCreate: a newly created bridge starts at sequence 1 with nothing recorded under its id.
func c10AfterCreate(w *l1World, id uint64) error {
	e := w.e
	seq, err := e.Q.NextL1Sequence(e.Ctx, &ophosttypes.QueryNextL1SequenceRequest{BridgeId: id})
	if err != nil || seq.NextL1Sequence != 1 {
		return fmt.Errorf("new bridge %d: NextL1Sequence = %v (err %v), want 1", id, seq, err)
	}
	tp, err := e.Q.TokenPairs(e.Ctx, &ophosttypes.QueryTokenPairsRequest{BridgeId: id})
	if err != nil || len(tp.TokenPairs) != 0 {
		return fmt.Errorf("new bridge %d already has token pairs %v (err %v)", id, tp, err)
	}
	op, err := e.Q.OutputProposals(e.Ctx, &ophosttypes.QueryOutputProposalsRequest{BridgeId: id})
	if err != nil || len(op.OutputProposals) != 0 {
		return fmt.Errorf("new bridge %d already has outputs (err %v)", id, err)
	}
	return nil
}

func c10CheckDeposit(w *l1World, st *l1Step, seqBefore uint64, preBal, postBal map[string]string, preDigest, postDigest string) error {
	msg := st.Msg.(*ophosttypes.MsgInitiateTokenDeposit)
	if !st.Res.OK() {
		if preDigest != postDigest {
			return fmt.Errorf("failed deposit changed state")
		}
		return nil
	}
	if !st.Existed {
		return fmt.Errorf("deposit to bridge id %d succeeded although no such bridge exists", st.Bridge)
	}
	resp := st.Res.Resp.(*ophosttypes.MsgInitiateTokenDepositResponse)
	if resp.Sequence != seqBefore {
		return fmt.Errorf("deposit into bridge %d returned sequence %d, model expects %d", st.Bridge, resp.Sequence, seqBefore)
	}
	evs := henv.EventAttrs(st.Res.Events, ophosttypes.EventTypeInitiateTokenDeposit)
	if len(evs) != 1 {
		return fmt.Errorf("deposit emitted %d initiate_token_deposit events, want exactly 1", len(evs))
	}
	ev := evs[0]
	want := map[string]string{
		ophosttypes.AttributeKeyBridgeId:   strconv.FormatUint(msg.BridgeId, 10),
		ophosttypes.AttributeKeyL1Sequence: strconv.FormatUint(seqBefore, 10),
		ophosttypes.AttributeKeyFrom:       msg.Sender,
		ophosttypes.AttributeKeyTo:         msg.To,
		ophosttypes.AttributeKeyL1Denom:    msg.Amount.Denom,
		ophosttypes.AttributeKeyL2Denom:    ref.L2Denom(msg.BridgeId, msg.Amount.Denom),
		ophosttypes.AttributeKeyAmount:     msg.Amount.Amount.String(),
		ophosttypes.AttributeKeyData:       hex.EncodeToString(msg.Data),
	}
	for k, v := range want {
		if ev[k] != v {
			return fmt.Errorf("deposit event attribute %s = %q, request says %q", k, ev[k], v)
		}
	}
	if len(ev) != len(want) {
		return fmt.Errorf("deposit event has %d attributes, want %d: %v", len(ev), len(want), ev)
	}
	// what moved equals what was requested
	sender := msg.Sender
	if a, err := sdk.AccAddressFromBech32(sender); err == nil {
		sender = a.String() // balances are looked up under the canonical spelling of the account
	}
	escrow := escrowAddr(msg.BridgeId).String()
	preS, _ := parseCoins(preBal[sender])
	postS, _ := parseCoins(postBal[sender])
	preE, _ := parseCoins(preBal[escrow])
	postE, _ := parseCoins(postBal[escrow])
	if sender != escrow {
		if !preS.AmountOf(msg.Amount.Denom).Sub(postS.AmountOf(msg.Amount.Denom)).Equal(msg.Amount.Amount) {
			return fmt.Errorf("sender paid %s, request says %s", preS.Sub(postS...), msg.Amount)
		}
		if !postE.AmountOf(msg.Amount.Denom).Sub(preE.AmountOf(msg.Amount.Denom)).Equal(msg.Amount.Amount) {
			return fmt.Errorf("escrow received %s of %s, request says %s", postE.AmountOf(msg.Amount.Denom).Sub(preE.AmountOf(msg.Amount.Denom)), msg.Amount.Denom, msg.Amount)
		}
	}
	return nil
}

// c10Queries: counters and token pairs as the queries report them, for every bridge.
func c10Queries(w *l1World) error {
	e := w.e
	for _, id := range w.ids {
		b := w.bridges[id]
		seq, err := e.Q.NextL1Sequence(e.Ctx, &ophosttypes.QueryNextL1SequenceRequest{BridgeId: id})
		if err != nil || seq.NextL1Sequence != b.NextSeq {
			return fmt.Errorf("bridge %d: NextL1Sequence query = %v (err %v), model %d (1 + successful deposits)", id, seq, err, b.NextSeq)
		}
		tp, err := e.Q.TokenPairs(e.Ctx, &ophosttypes.QueryTokenPairsRequest{BridgeId: id, Pagination: &query.PageRequest{Limit: 100000}})
		if err != nil {
			return err
		}
		for l2, l1 := range b.Pairs {
			one, err := e.Q.TokenPairByL2Denom(e.Ctx, &ophosttypes.QueryTokenPairByL2DenomRequest{BridgeId: id, L2Denom: l2})
			if err != nil || one.TokenPair.L1Denom != l1 {
				return fmt.Errorf("bridge %d: a deposit of %s was accepted, TokenPairByL2Denom(%s) = %v, %v", id, l1, l2, one, err)
			}
		}
		if len(tp.TokenPairs) != len(b.Pairs) {
			return fmt.Errorf("bridge %d: TokenPairs lists %d pairs, model has %d", id, len(tp.TokenPairs), len(b.Pairs))
		}
		// the same listing read page by page (one pair on the first page, then two at a time, following next_key - the
		// last page asks for more than the bridge has left): the same pairs, nothing of another bridge
		if len(b.Pairs) > 0 && len(b.Pairs) <= 12 {
			var walked []ophosttypes.TokenPair
			req := &query.PageRequest{Limit: 1}
			for rounds := 0; rounds < 40; rounds++ {
				pg, err := e.Q.TokenPairs(e.Ctx, &ophosttypes.QueryTokenPairsRequest{BridgeId: id, Pagination: req})
				if err != nil {
					return fmt.Errorf("bridge %d: TokenPairs page: %v", id, err)
				}
				walked = append(walked, pg.TokenPairs...)
				if pg.Pagination == nil || len(pg.Pagination.NextKey) == 0 {
					break
				}
				req = &query.PageRequest{Key: pg.Pagination.NextKey, Limit: 2}
			}
			if len(walked) != len(tp.TokenPairs) {
				return fmt.Errorf("bridge %d: read page by page TokenPairs lists %d pairs (%v), read at once %d", id, len(walked), walked, len(tp.TokenPairs))
			}
			for i := range walked {
				if walked[i] != tp.TokenPairs[i] {
					return fmt.Errorf("bridge %d: read page by page TokenPairs has %v at position %d, read at once %v", id, walked[i], i, tp.TokenPairs[i])
				}
			}
		}
		for _, p := range tp.TokenPairs {
			if b.Pairs[p.L2Denom] != p.L1Denom || p.L2Denom != ref.L2Denom(id, p.L1Denom) {
				return fmt.Errorf("bridge %d: token pair %v is not the deterministic derivation of a deposited denom", id, p)
			}
			one, err := e.Q.TokenPairByL2Denom(e.Ctx, &ophosttypes.QueryTokenPairByL2DenomRequest{BridgeId: id, L2Denom: p.L2Denom})
			if err != nil || one.TokenPair != p {
				return fmt.Errorf("bridge %d: TokenPairByL2Denom(%s) = %v, %v", id, p.L2Denom, one, err)
			}
		}
	}
	return nil
}

func TestC10Rapid(t *testing.T) {
	rec := evid.For("C10")
	runRapid(t, 100, 6000, func(rt *rapid.T) {
		c := rec.Begin()
		w := newL1World(rt, l1Cfg{weights: c10Weights, maxBridges: 5, withFee: true, badCfgProb: 5, manyBridges: true, periods: []time.Duration{time.Minute}})
		earlyTarget := map[uint64]bool{} // ids that were deposited to before they existed
		lateCreated := false
		shape := ""
		bulkAt := -1
		if rapid.IntRange(0, 14).Draw(rt, "bulk") == 0 {
			bulkAt = rapid.IntRange(1, 25).Draw(rt, "bulkAt")
		}
		repeatSteps(rt, 35, func(i int) {
			if i == bulkAt && len(w.ids) > 0 {
				// a bridge that has seen far more than a page of distinct tokens
				w.bulkDenoms(rt, w.bridges[w.ids[0]], rapid.IntRange(101, 140).Draw(rt, "bulkN"))
				c.Class("bridge-with-more-than-100-token-pairs")
				if err := c10Queries(w); err != nil {
					rt.Fatalf("C10 violated after the bulk deposits: %v\nhistory:\n%s", err, w.history())
				}
			}
			if rapid.IntRange(0, 24).Draw(rt, "restart") == 0 {
				// the chain is exported and a new one started from that genesis: counters and token pairs of every bridge,
				// busy or idle, with or without outputs, are what they were
				w.restart(rt)
				c.Class("genesis-round-trip-inside-history")
				if err := c10Queries(w); err != nil {
					rt.Fatalf("C10 violated after a restart from the exported genesis: %v\nhistory:\n%s", err, w.history())
				}
			}
			preBal, preDigest := w.balances(), w.e.Digest()
			var seqBefore uint64
			st := w.step(rt)
			// the model sequence before this step
			if b, ok := w.bridges[st.Bridge]; ok && st.Kind == "deposit" {
				seqBefore = b.NextSeq
				if st.Res.OK() {
					seqBefore--
				}
			}
			switch st.Kind {
			case "deposit":
				if err := c10CheckDeposit(w, st, seqBefore, preBal, w.balances(), preDigest, w.e.Digest()); err != nil {
					rt.Fatalf("C10 violated at step %d: %v\nhistory:\n%s", i, err, w.history())
				}
				if !st.Existed {
					earlyTarget[st.Bridge] = true
					c.Class("deposit-to-missing-bridge")
				}
				if st.Res.OK() {
					c.Class("deposit-ok")
					if st.Amount.IsZero() {
						c.Class("deposit-ok-zero")
					}
				}
				shape += fmt.Sprintf("d%d%v", st.Bridge, st.Res.OK())
			case "create":
				if st.Res.OK() {
					if err := c10AfterCreate(w, st.Bridge); err != nil {
						rt.Fatalf("C10 violated at step %d: %v\nhistory:\n%s", i, err, w.history())
					}
					if earlyTarget[st.Bridge] {
						lateCreated = true
					}
					shape += fmt.Sprintf("c%d", st.Bridge)
				}
			default:
				// everything else that touches a bridge (config updates by the role holders, outputs, claims)
				// must leave its deposit counter alone: c10Queries below compares it with the model
				if strings.HasPrefix(st.Kind, "role:") && st.Res.OK() {
					if b, ok := w.bridges[st.Bridge]; ok && b.NextSeq > 1 {
						c.Class("config-update-after-deposits")
					}
				}
			}
			if err := c10Queries(w); err != nil {
				rt.Fatalf("C10 violated at step %d: %v\nhistory:\n%s", i, err, w.history())
			}
		})
		if lateCreated {
			c.NonTrivial()
			c.Shape(shape)
			c.Class("bridge-created-after-deposit-attempt")
		}
		c.Sample(func() interface{} { return map[string]interface{}{"history": w.log} })
		c.Done()
	})
}

// TestC10GenesisGap: a chain started from a genesis in which a bridge id below next_bridge_id has no
// bridge (ids 1 and 3 of three exported bridges; genesis validation accepts it): deposits into the
// gap and beyond the counter are refused without effect, deposits into the real bridges work and
// count from where the genesis says.
func TestC10GenesisGap(t *testing.T) {
	rec := evid.For("C10")
	src := henv.NewL1(henv.L1Options{NoHook: true})
	u := henv.MakeUser("c10-gap")
	src.Fund(u.Addr, coinOf("uinit", 1000))
	for i := 0; i < 3; i++ {
		if r := src.Deliver(ophosttypes.NewMsgCreateBridge(u.Str, henv.DefaultBridgeConfig(u.Str, u.Str, time.Minute))); !r.OK() {
			t.Fatal(r.Err)
		}
	}
	if r := src.Deliver(ophosttypes.NewMsgInitiateTokenDeposit(u.Str, 3, u.Str, coinOf("uinit", 5), nil)); !r.OK() {
		t.Fatal(r.Err)
	}
	gs := src.K.ExportGenesis(src.Ctx)
	var kept []ophosttypes.Bridge
	for _, b := range gs.Bridges {
		if b.BridgeId != 2 {
			kept = append(kept, b)
		}
	}
	gs.Bridges = kept
	if err := ophosttypes.ValidateGenesis(gs, src.AK.AddressCodec()); err != nil {
		t.Skipf("genesis with a gap does not validate (%v): not a state a chain can start from", err)
	}
	e := importL1(src, gs)
	for _, tcase := range []struct {
		id   uint64
		want bool
		seq  uint64
	}{{2, false, 0}, {4, false, 0}, {1, true, 1}, {3, true, 2}, {2, false, 0}} {
		before := e.Digest()
		r := e.Deliver(ophosttypes.NewMsgInitiateTokenDeposit(u.Str, tcase.id, u.Str, coinOf("uinit", 7), nil))
		id := fmt.Sprintf("genesis-gap/id=%d", tcase.id)
		if r.OK() != tcase.want {
			caseFail(t, id, "C10 violated: after starting from a genesis with bridges 1 and 3 (next id 4), a deposit into bridge id %d: accepted=%v (%v), a bridge exists there: %v", tcase.id, r.OK(), r.Err, tcase.want)
		}
		if !r.OK() && e.Digest() != before {
			caseFail(t, id, "C10 violated: a refused deposit into bridge id %d changed state", tcase.id)
		}
		if r.OK() {
			if got := r.Resp.(*ophosttypes.MsgInitiateTokenDepositResponse).Sequence; got != tcase.seq {
				caseFail(t, id, "C10 violated: deposit into bridge %d after the genesis start got sequence %d, want %d", tcase.id, got, tcase.seq)
			}
		}
		c := rec.Begin()
		c.Class("deposit-after-genesis-with-a-gap-in-bridge-ids")
		c.Done()
	}
}

// TestC10HighSequence: a bridge whose deposit counter is in the upper half of the 64-bit range
// (started from a genesis that says so; genesis validation accepts it): responses, events and the
// counter query keep naming the same unsigned number, and the numbers stay gap-free.
func TestC10HighSequence(t *testing.T) {
	rec := evid.For("C10")
	for _, start := range []uint64{1<<63 - 1, 1 << 63, 1<<64 - 3} {
		src := henv.NewL1(henv.L1Options{NoHook: true})
		u := henv.MakeUser("c10-high")
		src.Fund(u.Addr, coinOf("uinit", 1000))
		if r := src.Deliver(ophosttypes.NewMsgCreateBridge(u.Str, henv.DefaultBridgeConfig(u.Str, u.Str, time.Minute))); !r.OK() {
			t.Fatal(r.Err)
		}
		gs := src.K.ExportGenesis(src.Ctx)
		gs.Bridges[0].NextL1Sequence = start
		if err := ophosttypes.ValidateGenesis(gs, src.AK.AddressCodec()); err != nil {
			t.Skipf("genesis with next_l1_sequence %d does not validate: %v", start, err)
		}
		e := importL1(src, gs)
		for k := uint64(0); k < 2; k++ {
			want := start + k
			id := fmt.Sprintf("high-sequence/%d", want)
			r := e.Deliver(ophosttypes.NewMsgInitiateTokenDeposit(u.Str, 1, u.Str, coinOf("uinit", 3), nil))
			if !r.OK() {
				caseFail(t, id, "C10 violated: deposit refused at sequence %d: %v", want, r.Err)
			}
			if got := r.Resp.(*ophosttypes.MsgInitiateTokenDepositResponse).Sequence; got != want {
				caseFail(t, id, "C10 violated: deposit answered sequence %d, the counter said %d", got, want)
			}
			evs := henv.EventAttrs(r.Events, ophosttypes.EventTypeInitiateTokenDeposit)
			if len(evs) != 1 || evs[0][ophosttypes.AttributeKeyL1Sequence] != strconv.FormatUint(want, 10) || evs[0][ophosttypes.AttributeKeyBridgeId] != "1" {
				caseFail(t, id, "C10 violated: the deposit event announces l1_sequence %q bridge_id %q, the response says %d for bridge 1", evs[0][ophosttypes.AttributeKeyL1Sequence], evs[0][ophosttypes.AttributeKeyBridgeId], want)
			}
			q, err := e.Q.NextL1Sequence(e.Ctx, &ophosttypes.QueryNextL1SequenceRequest{BridgeId: 1})
			if err != nil || q.NextL1Sequence != want+1 {
				caseFail(t, id, "C10 violated: NextL1Sequence = %v (err %v) after the deposit numbered %d", q, err, want)
			}
			c := rec.Begin()
			c.Class("deposit-with-sequence-at-or-above-2^63")
			c.Done()
		}
	}
}
