package props

import (
	"encoding/hex"
	"fmt"
	"strconv"
	"strings"
	"testing"
	"time"

	"pgregory.net/rapid"

	ophosttypes "github.com/initia-labs/OPinit/x/ophost/types"

	"verifharness/evid"
	"verifharness/henv"
	"verifharness/ref"
)

var c10Weights = []weighted{{"deposit", 14}, {"create", 4}, {"role", 3}, {"send", 1}, {"advance", 1}, {"propose", 3}, {"delete", 3}, {"claim", 1}}

// c10AfterCreate: a newly created bridge starts at sequence 1 with nothing recorded under its id.
func c10AfterCreate(w *l1World, id uint64) error {
	e := w.e
	seq, err := e.Q.NextL1Sequence(e.Ctx, &ophosttypes.QueryNextL1SequenceRequest{BridgeId: id})
	if err != nil || seq.NextL1Sequence != 1 {
		return fmt.Errorf("new bridge %d: NextL1Sequence = %v (err %v), want 1", id, seq, err)
	}
	tp, err := e.Q.TokenPairs(e.Ctx, &ophosttypes.QueryTokenPairsRequest{BridgeId: id})
	if err != nil || len(tp.TokenPairs) != 0 {
		return fmt.Errorf("new bridge %d already has token pairs %v (err %v)", id, tp, err)
	}
	op, err := e.Q.OutputProposals(e.Ctx, &ophosttypes.QueryOutputProposalsRequest{BridgeId: id})
	if err != nil || len(op.OutputProposals) != 0 {
		return fmt.Errorf("new bridge %d already has outputs (err %v)", id, err)
	}
	return nil
}

func c10CheckDeposit(w *l1World, st *l1Step, seqBefore uint64, preBal, postBal map[string]string, preDigest, postDigest string) error {
	msg := st.Msg.(*ophosttypes.MsgInitiateTokenDeposit)
	if !st.Res.OK() {
		if preDigest != postDigest {
			return fmt.Errorf("failed deposit changed state")
		}
		return nil
	}
	if !st.Existed {
		return fmt.Errorf("deposit to bridge id %d succeeded although no such bridge exists", st.Bridge)
	}
	resp := st.Res.Resp.(*ophosttypes.MsgInitiateTokenDepositResponse)
	if resp.Sequence != seqBefore {
		return fmt.Errorf("deposit into bridge %d returned sequence %d, model expects %d", st.Bridge, resp.Sequence, seqBefore)
	}
	evs := henv.EventAttrs(st.Res.Events, ophosttypes.EventTypeInitiateTokenDeposit)
	if len(evs) != 1 {
		return fmt.Errorf("deposit emitted %d initiate_token_deposit events, want exactly 1", len(evs))
	}
	ev := evs[0]
	want := map[string]string{
		ophosttypes.AttributeKeyBridgeId:   strconv.FormatUint(msg.BridgeId, 10),
		ophosttypes.AttributeKeyL1Sequence: strconv.FormatUint(seqBefore, 10),
		ophosttypes.AttributeKeyFrom:       msg.Sender,
		ophosttypes.AttributeKeyTo:         msg.To,
		ophosttypes.AttributeKeyL1Denom:    msg.Amount.Denom,
		ophosttypes.AttributeKeyL2Denom:    ref.L2Denom(msg.BridgeId, msg.Amount.Denom),
		ophosttypes.AttributeKeyAmount:     msg.Amount.Amount.String(),
		ophosttypes.AttributeKeyData:       hex.EncodeToString(msg.Data),
	}
	for k, v := range want {
		if ev[k] != v {
			return fmt.Errorf("deposit event attribute %s = %q, request says %q", k, ev[k], v)
		}
	}
	if len(ev) != len(want) {
		return fmt.Errorf("deposit event has %d attributes, want %d: %v", len(ev), len(want), ev)
	}
	// what moved equals what was requested
	sender := msg.Sender
	escrow := escrowAddr(msg.BridgeId).String()
	preS, _ := parseCoins(preBal[sender])
	postS, _ := parseCoins(postBal[sender])
	preE, _ := parseCoins(preBal[escrow])
	postE, _ := parseCoins(postBal[escrow])
	if sender != escrow {
		if !preS.AmountOf(msg.Amount.Denom).Sub(postS.AmountOf(msg.Amount.Denom)).Equal(msg.Amount.Amount) {
			return fmt.Errorf("sender paid %s, request says %s", preS.Sub(postS...), msg.Amount)
		}
		if !postE.AmountOf(msg.Amount.Denom).Sub(preE.AmountOf(msg.Amount.Denom)).Equal(msg.Amount.Amount) {
			return fmt.Errorf("escrow received %s of %s, request says %s", postE.AmountOf(msg.Amount.Denom).Sub(preE.AmountOf(msg.Amount.Denom)), msg.Amount.Denom, msg.Amount)
		}
	}
	return nil
}

// c10Queries: counters and token pairs as the queries report them, for every bridge.
func c10Queries(w *l1World) error {
	e := w.e
	for _, id := range w.ids {
		b := w.bridges[id]
		seq, err := e.Q.NextL1Sequence(e.Ctx, &ophosttypes.QueryNextL1SequenceRequest{BridgeId: id})
		if err != nil || seq.NextL1Sequence != b.NextSeq {
			return fmt.Errorf("bridge %d: NextL1Sequence query = %v (err %v), model %d (1 + successful deposits)", id, seq, err, b.NextSeq)
		}
		tp, err := e.Q.TokenPairs(e.Ctx, &ophosttypes.QueryTokenPairsRequest{BridgeId: id})
		if err != nil {
			return err
		}
		if len(tp.TokenPairs) != len(b.Pairs) {
			return fmt.Errorf("bridge %d: TokenPairs lists %d pairs, model has %d", id, len(tp.TokenPairs), len(b.Pairs))
		}
		for _, p := range tp.TokenPairs {
			if b.Pairs[p.L2Denom] != p.L1Denom || p.L2Denom != ref.L2Denom(id, p.L1Denom) {
				return fmt.Errorf("bridge %d: token pair %v is not the deterministic derivation of a deposited denom", id, p)
			}
			one, err := e.Q.TokenPairByL2Denom(e.Ctx, &ophosttypes.QueryTokenPairByL2DenomRequest{BridgeId: id, L2Denom: p.L2Denom})
			if err != nil || one.TokenPair != p {
				return fmt.Errorf("bridge %d: TokenPairByL2Denom(%s) = %v, %v", id, p.L2Denom, one, err)
			}
		}
	}
	return nil
}

func TestC10Rapid(t *testing.T) {
	rec := evid.For("C10")
	runRapid(t, 250, 6000, func(rt *rapid.T) {
		c := rec.Begin()
		w := newL1World(rt, l1Cfg{weights: c10Weights, maxBridges: 5, withFee: true, badCfgProb: 5, manyBridges: true, periods: []time.Duration{time.Minute}})
		earlyTarget := map[uint64]bool{} // ids that were deposited to before they existed
		lateCreated := false
		shape := ""
		repeatSteps(rt, 35, func(i int) {
			preBal, preDigest := w.balances(), w.e.Digest()
			var seqBefore uint64
			st := w.step(rt)
			// the model sequence before this step
			if b, ok := w.bridges[st.Bridge]; ok && st.Kind == "deposit" {
				seqBefore = b.NextSeq
				if st.Res.OK() {
					seqBefore--
				}
			}
			switch st.Kind {
			case "deposit":
				if err := c10CheckDeposit(w, st, seqBefore, preBal, w.balances(), preDigest, w.e.Digest()); err != nil {
					rt.Fatalf("C10 violated at step %d: %v\nhistory:\n%s", i, err, w.history())
				}
				if !st.Existed {
					earlyTarget[st.Bridge] = true
					c.Class("deposit-to-missing-bridge")
				}
				if st.Res.OK() {
					c.Class("deposit-ok")
					if st.Amount.IsZero() {
						c.Class("deposit-ok-zero")
					}
				}
				shape += fmt.Sprintf("d%d%v", st.Bridge, st.Res.OK())
			case "create":
				if st.Res.OK() {
					if err := c10AfterCreate(w, st.Bridge); err != nil {
						rt.Fatalf("C10 violated at step %d: %v\nhistory:\n%s", i, err, w.history())
					}
					if earlyTarget[st.Bridge] {
						lateCreated = true
					}
					shape += fmt.Sprintf("c%d", st.Bridge)
				}
			default:
				// everything else that touches a bridge (config updates by the role holders, outputs, claims)
				// must leave its deposit counter alone: c10Queries below compares it with the model
				if strings.HasPrefix(st.Kind, "role:") && st.Res.OK() {
					if b, ok := w.bridges[st.Bridge]; ok && b.NextSeq > 1 {
						c.Class("config-update-after-deposits")
					}
				}
			}
			if err := c10Queries(w); err != nil {
				rt.Fatalf("C10 violated at step %d: %v\nhistory:\n%s", i, err, w.history())
			}
		})
		if lateCreated {
			c.NonTrivial()
			c.Shape(shape)
			c.Class("bridge-created-after-deposit-attempt")
		}
		c.Sample(func() interface{} { return map[string]interface{}{"history": w.log} })
		c.Done()
	})
}
