package props

import (
	"bytes"
	"strings"
	"testing"
	"time"

	"cosmossdk.io/math"
	cryptotypes "github.com/cosmos/cosmos-sdk/crypto/types"
	sdk "github.com/cosmos/cosmos-sdk/types"
	authtypes "github.com/cosmos/cosmos-sdk/x/auth/types"
	banktypes "github.com/cosmos/cosmos-sdk/x/bank/types"

	opchildtypes "github.com/initia-labs/OPinit/x/opchild/types"
	ophosttypes "github.com/initia-labs/OPinit/x/ophost/types"

	"verifharness/evid"
	"verifharness/henv"
	"verifharness/ref"
)

// Plain regression cases (no generator): the shrunk reproductions of the defects that were
// found and repaired (DESIGN §4). They run first in both tiers and fail again if a defect returns.

func regressed(t *testing.T, pid, what string) {
	c := evid.For(pid).Begin()
	c.Class("regression/" + what)
	c.Done()
}

// D1: a bridge with a non-positive finalization period must be refused.
func TestC05RegressNegativePeriod(t *testing.T) {
	e := henv.NewL1(henv.L1Options{NoHook: true})
	u := henv.MakeUser("regress")
	for _, p := range []time.Duration{-time.Hour, -1, 0} {
		if r := e.Deliver(ophosttypes.NewMsgCreateBridge(u.Str, henv.DefaultBridgeConfig(u.Str, u.Str, p))); r.OK() {
			caseFail(t, "D1", "bridge with finalization period %v was accepted", p)
		}
	}
	regressed(t, "C05", "D1-negative-period")
}

// D2: a deposit to a bridge id that was never created must fail without effect.
func TestC10RegressDepositToMissingBridge(t *testing.T) {
	e := henv.NewL1(henv.L1Options{NoHook: true})
	u := henv.MakeUser("regress")
	e.Fund(u.Addr, coinOf("uinit", 100))
	before := e.Digest()
	for _, amt := range []int64{2, 0} {
		if r := e.Deliver(ophosttypes.NewMsgInitiateTokenDeposit(u.Str, 1, u.Str, coinOf("uinit", amt), nil)); r.OK() {
			caseFail(t, "D2", "deposit of %d to a bridge that does not exist was accepted", amt)
		}
	}
	if e.Digest() != before {
		caseFail(t, "D2", "rejected deposit changed state")
	}
	regressed(t, "C10", "D2-deposit-to-missing-bridge")
}

// D3: neither chain accepts an amount that does not fit the 64-bit withdrawal commitment.
func TestC04RegressAmountAbove64Bits(t *testing.T) {
	w := newC04World()
	tc := w.tc
	two64, _ := math.NewIntFromString("18446744073709551616")
	// accumulate 2^64 on L2 through two deposits, then try to withdraw it at once
	half := two64.QuoRaw(2)
	for i := 0; i < 2; i++ {
		if acc, err := w.deposit(tc.users[1].Str, sdk.Coin{Denom: "uinit", Amount: half}); err != nil || !acc {
			caseFail(t, "D3", "deposit of 2^63: accepted=%v err=%v", acc, err)
		}
	}
	if r := w.withdraw(tc.users[1], tc.users[2].Str, sdk.Coin{Denom: tcL2Denom(tc, "uinit"), Amount: two64}); r.OK() {
		caseFail(t, "D3", "L2 recorded a withdrawal of 2^64, which can never be proven on L1")
	}
	if acc, _ := w.deposit("not-an-address", sdk.Coin{Denom: "uinit", Amount: two64}); acc {
		if _, err := w.settle(10); err != nil {
			caseFail(t, "D3", "%v", err)
		}
	}
	regressed(t, "C04", "D3-amount-above-64-bits")
}

// D4: a validator added and removed within one block is gone at the end of the block.
func TestC13RegressAddThenRemove(t *testing.T) {
	w, err := newValWorld(1, 3, 2)
	if err != nil {
		t.Fatal(err)
	}
	if err := w.beginBlock(); err != nil {
		t.Fatal(err)
	}
	if _, err := w.add(1, 1); err != nil {
		caseFail(t, "D4", "%v", err)
	}
	if _, _, err := w.remove(1); err != nil {
		caseFail(t, "D4", "%v", err)
	}
	if _, err := w.endBlock(); err != nil {
		caseFail(t, "D4", "%v", err)
	}
	regressed(t, "C13", "D4-add-then-remove")
}

// D5: the root does not depend on the memory layout of the proof list.
func TestC17RegressSharedBuffer(t *testing.T) {
	var leaf [32]byte
	leaf[0] = 0xff
	items := [][]byte{bytes.Repeat([]byte{1}, 32), bytes.Repeat([]byte{2}, 32), bytes.Repeat([]byte{3}, 32)}
	if err := checkRootAcrossLayouts(leaf, items, ref.RootFromProof(leaf, items)); err != nil {
		caseFail(t, "D5", "%v", err)
	}
	regressed(t, "C17", "D5-shared-buffer")
}

// D8: a plan executed while the validator set is at the maximum must not abort the block.
func TestC14RegressPlanAtCap(t *testing.T) {
	w, err := newValWorld(1, 1, 0)
	if err != nil {
		t.Fatal(err)
	}
	if err := w.beginBlock(); err != nil {
		t.Fatal(err)
	}
	h := uint64(w.l2.Ctx.BlockHeight())
	if err := w.l2.K.RegisterExecutorChangePlan(1, h, w.ops[1].String(), "plan", w.pubKeyJSON(1), "", []string{w.executors[0].Str}); err != nil {
		t.Fatal(err)
	}
	if err := w.endBlockWithPlan(c14Plan{height: h, opI: 1, keyI: 1, executors: []string{w.executors[0].Str}}); err != nil {
		caseFail(t, "D8", "%v", err)
	}
	regressed(t, "C14", "D8-plan-at-max-validators")
}

// D9: a zero-amount deposit to the not yet instantiated opchild module account with a failing hook.
func TestC07RegressZeroAmountToModuleAccount(t *testing.T) {
	tc := newTwoChain(tcOpts{nExecutors: 1, fault: true})
	for _, u := range tc.users {
		tc.l2.Fund(u.Addr, coinOf("stake", 10))
	}
	mod := authtypes.NewModuleAddress(opchildtypes.ModuleName)
	for _, data := range [][]byte{nil, {0xff, 0x01}} {
		cs := &c07Case{tc: tc, toClass: "module-opchild", toAddr: mod, blocked: true, signer: tc.users[1], payload: "garbage", expect: "either", hookMaxGas: opchildtypes.DefaultHookMaxGas, sent: map[string]math.Int{}, withdrawn: math.ZeroInt()}
		branchL2(tc.l2, func(b *henv.L2) {
			next, _ := b.K.GetNextL1Sequence(b.Ctx)
			cs.msg = relayMsg(tc.executors[0].Str, &pendingDeposit{Seq: next, From: tc.users[0].Str, To: mod.String(), L1Denom: "uinit", L2Denom: tcL2Denom(tc, "uinit"), Amount: math.ZeroInt(), Data: data, L1Height: 5})
			pre := cs.snap(b)
			b.Fault.Reset(0, false)
			r := b.DeliverWithGas(cs.msg, c07HandlerGas+cs.hookMaxGas)
			if _, err := cs.judge(b, pre, r, false); err != nil {
				caseFail(t, "D9", "%v", err)
			}
			if err := cs.liveness(b); err != nil {
				caseFail(t, "D9", "bridge blocked: %v", err)
			}
		})
	}
	regressed(t, "C07", "D9-zero-amount-to-module-account")
}

// D10: a withdrawal made inside a deposit hook is announced by an event.
func TestC07RegressHookWithdrawalEvent(t *testing.T) {
	tc := newTwoChain(tcOpts{nExecutors: 1})
	u := tc.users[1]
	tc.l2.Fund(u.Addr, coinOf("stake", 10))
	num, seq := accInfo(tc.l2, u)
	l2d := tcL2Denom(tc, "uinit")
	data := signTx(tc.l2, []sdk.Msg{opchildtypes.NewMsgInitiateTokenWithdrawal(u.Str, "l1-target", sdk.NewCoin(l2d, math.NewInt(3)))}, []cryptotypes.PrivKey{u.Priv}, []uint64{num}, []uint64{seq}, henv.L2ChainID)
	_, p := tc.l1Deposit(tc.users[0], u.Str, coinOf("uinit", 10), data)
	r := tc.l2.Deliver(relayMsg(tc.executors[0].Str, p))
	if !r.OK() {
		caseFail(t, "D10", "%v", r.Err)
	}
	ws := parseWithdrawalEvents(r.Events)
	if !tc.l2.Supply(l2d).Equal(math.NewInt(7)) || len(ws) != 1 || ws[0].To != "l1-target" || !ws[0].Amount.Equal(math.NewInt(3)) || ws[0].Seq != 1 {
		caseFail(t, "D10", "hook withdrew (supply %s) but the transaction announces %+v", tc.l2.Supply(l2d), ws)
	}
	regressed(t, "C07", "D10-hook-withdrawal-event")
}

// D11: a hook payload whose signer address does not decode fails the hook, not the deposit.
func TestC07RegressUndecodableSigner(t *testing.T) {
	tc := newTwoChain(tcOpts{nExecutors: 1, fault: true})
	u := tc.users[1]
	tc.l2.Fund(u.Addr, coinOf("stake", 10))
	num, seq := accInfo(tc.l2, u)
	l2d := tcL2Denom(tc, "uinit")
	data := signTx(tc.l2, []sdk.Msg{banktypes.NewMsgSend(u.Addr, tc.users[2].Addr, sdk.NewCoins(coinOf(l2d, 1)))}, []cryptotypes.PrivKey{u.Priv}, []uint64{num}, []uint64{seq}, henv.L2ChainID)
	at := bytes.Index(data, []byte(u.Str))
	data[at+20], data[at+21] = 0xff, 0x7f
	_, p := tc.l1Deposit(tc.users[0], u.Str, coinOf("uinit", 1000), data)
	cs := &c07Case{tc: tc, msg: relayMsg(tc.executors[0].Str, p), toClass: "user", toAddr: u.Addr, signer: u, payload: "bad-signer", expect: "B",
		hookMaxGas: opchildtypes.DefaultHookMaxGas, sent: map[string]math.Int{}, withdrawn: math.ZeroInt()}
	pre := cs.snap(tc.l2)
	tc.l2.Fault.Reset(0, false)
	r := tc.l2.DeliverWithGas(cs.msg, c07HandlerGas+cs.hookMaxGas)
	if _, err := cs.judge(tc.l2, pre, r, false); err != nil {
		caseFail(t, "D11", "%v", err)
	}
	if err := cs.liveness(tc.l2); err != nil {
		caseFail(t, "D11", "bridge blocked: %v", err)
	}
	regressed(t, "C07", "D11-undecodable-signer")
}

// D12: the gas an oracle update consumes depended on what the process had executed before at the same
// height (the currency-pair strategy of the vote aggregator keeps an in-memory id cache that a discarded
// execution of the same update had filled): two nodes disagreed on the gas used by a committed transaction.
func TestC18RegressOracleGasHistory(t *testing.T) {
	mk := func(k string, a, b int, c int64, s string) c18Op { return c18Op{Kind: k, A: a, B: b, C: c, S: s} }
	script := []c18Op{mk("oracle", 0, 11, 7, "hold"), mk("add", 3, 0, 11, ""), mk("block", 3, 5, 0, ""), mk("add", 1, 0, 1, ""), mk("oracle-late", 0, 1, 0, "")}
	defer func(n bool) { c18Noise = n }(c18Noise)
	c18Noise = false
	plain, _, _ := runL2Script(script)
	c18Noise = true
	noisy, _, _ := runL2Script(script)
	if plain != noisy {
		caseFail(t, "D12", "C18 violated: the same L2 history executed by a process that had checked the waiting oracle update before (uncommitted) differs: %s", firstDiffLine(plain, noisy))
	}
	if !strings.Contains(plain, "oracle-late(0,1,0,) => ok") {
		t.Fatalf("harness: the regression script no longer applies its oracle update:\n%s", truncStr(plain, 1500))
	}
	regressed(t, "C18", "D12-oracle-gas-depends-on-process-history")
}
