package props

import (
	"bytes"
	"fmt"
	"strconv"
	"testing"
	"time"

	sdk "github.com/cosmos/cosmos-sdk/types"
	"github.com/cosmos/cosmos-sdk/types/query"
	"pgregory.net/rapid"

	ophosttypes "github.com/initia-labs/OPinit/x/ophost/types"

	"verifharness/evid"
	"verifharness/henv"
)

var c11Weights = []weighted{{"propose", 12}, {"delete", 6}, {"advance", 6}, {"create", 2}, {"role", 2}, {"deposit", 1}}

// queryAllOutputs walks Query/OutputProposals completely with a small page size.
func queryAllOutputs(e *henv.L1, id uint64) ([]ophosttypes.QueryOutputProposalResponse, error) {
	var out []ophosttypes.QueryOutputProposalResponse
	var key []byte
	for guard := 0; guard < 1000; guard++ {
		res, err := e.Q.OutputProposals(e.Ctx, &ophosttypes.QueryOutputProposalsRequest{BridgeId: id, Pagination: &query.PageRequest{Key: key, Limit: 3}})
		if err != nil {
			return nil, err
		}
		out = append(out, res.OutputProposals...)
		if res.Pagination == nil || len(res.Pagination.NextKey) == 0 {
			return out, nil
		}
		key = res.Pagination.NextKey
	}
	return nil, fmt.Errorf("pagination does not terminate")
}

// c11Log compares the stored output log of every bridge with the model.
func c11Log(w *l1World) error {
	for _, id := range w.ids {
		b := w.bridges[id]
		outs, err := queryAllOutputs(w.e, id)
		if err != nil {
			return err
		}
		if len(outs) != len(b.Outputs) {
			return fmt.Errorf("bridge %d stores %d outputs, model log has %d", id, len(outs), len(b.Outputs))
		}
		for i, o := range outs {
			m := b.Outputs[i]
			if o.OutputIndex != uint64(i+1) || o.BridgeId != id {
				return fmt.Errorf("bridge %d: %d-th stored output has index %d (indices must be exactly 1..next-1)", id, i+1, o.OutputIndex)
			}
			p := o.OutputProposal
			if !bytes.Equal(p.OutputRoot, m.Root[:]) || p.L2BlockNumber != m.L2Block || !p.L1BlockTime.Equal(m.At) || int64(p.L1BlockNumber) != m.Height {
				return fmt.Errorf("bridge %d output %d stored as (root %x, l2 %d, l1 height %d, time %s), accepted as (root %x, l2 %d, height %d, time %s)",
					id, o.OutputIndex, p.OutputRoot[:4], p.L2BlockNumber, p.L1BlockNumber, p.L1BlockTime, m.Root[:4], m.L2Block, m.Height, m.At)
			}
			if i > 0 {
				prev := outs[i-1].OutputProposal
				if p.L2BlockNumber <= prev.L2BlockNumber {
					return fmt.Errorf("bridge %d: L2 block numbers not strictly increasing at index %d (%d after %d)", id, o.OutputIndex, p.L2BlockNumber, prev.L2BlockNumber)
				}
				if p.L1BlockTime.Before(prev.L1BlockTime) {
					return fmt.Errorf("bridge %d: L1 proposal time decreases at index %d", id, o.OutputIndex)
				}
			}
			one, err := w.e.Q.OutputProposal(w.e.Ctx, &ophosttypes.QueryOutputProposalRequest{BridgeId: id, OutputIndex: o.OutputIndex})
			if err != nil || !bytes.Equal(one.OutputProposal.OutputRoot, p.OutputRoot) {
				return fmt.Errorf("bridge %d: OutputProposal(%d) disagrees with OutputProposals: %v", id, o.OutputIndex, err)
			}
		}
		// nothing beyond next-1
		if _, err := w.e.Q.OutputProposal(w.e.Ctx, &ophosttypes.QueryOutputProposalRequest{BridgeId: id, OutputIndex: uint64(len(outs) + 1)}); err == nil {
			return fmt.Errorf("bridge %d: an output is stored at the next index %d", id, len(outs)+1)
		}
		// final outputs form a prefix; LastFinalizedOutput names the highest final index
		maxMust, maxMay := uint64(0), uint64(0)
		seenNonFinal := false
		for _, m := range b.Outputs {
			must, may := w.finalByModel(b, m)
			if must {
				if seenNonFinal {
					return fmt.Errorf("bridge %d: output %d is final but an earlier one is not (final outputs must form a prefix)", id, m.Index)
				}
				maxMust = m.Index
			}
			if may {
				maxMay = m.Index
			} else {
				seenNonFinal = true
			}
		}
		lf, err := w.e.Q.LastFinalizedOutput(w.e.Ctx, &ophosttypes.QueryLastFinalizedOutputRequest{BridgeId: id})
		if err != nil {
			return fmt.Errorf("bridge %d: LastFinalizedOutput: %v", id, err)
		}
		if lf.OutputIndex < maxMust || lf.OutputIndex > maxMay {
			return fmt.Errorf("bridge %d: LastFinalizedOutput says %d, highest final index is %d (at most %d within the one-second granularity)", id, lf.OutputIndex, maxMust, maxMay)
		}
		if lf.OutputIndex > 0 && !bytes.Equal(lf.OutputProposal.OutputRoot, b.Outputs[lf.OutputIndex-1].Root[:]) {
			return fmt.Errorf("bridge %d: LastFinalizedOutput returns a different output than the one stored at %d", id, lf.OutputIndex)
		}
	}
	return nil
}

// c11Step judges acceptance of propose and delete against the statement.
func c11Step(w *l1World, st *l1Step, pre struct {
	next uint64
	prev uint64
	prop string
	chal string
	must bool
	may  bool
}) error {
	switch st.Kind {
	case "propose":
		msg := st.Msg.(*ophosttypes.MsgProposeOutput)
		allowed := msg.Proposer == pre.prop && msg.OutputIndex == pre.next && (pre.next == 1 || msg.L2BlockNumber > pre.prev)
		if st.Res.OK() != allowed {
			return fmt.Errorf("propose(index %d, l2 block %d, by proposer=%v) with next index %d and previous block %d: accepted=%v, statement says %v (err %v)",
				msg.OutputIndex, msg.L2BlockNumber, msg.Proposer == pre.prop, pre.next, pre.prev, st.Res.OK(), allowed, st.Res.Err)
		}
		if st.Res.OK() {
			evs := henv.EventAttrs(st.Res.Events, ophosttypes.EventTypeProposeOutput)
			if len(evs) != 1 || evs[0][ophosttypes.AttributeKeyOutputIndex] != strconv.FormatUint(pre.next, 10) || evs[0][ophosttypes.AttributeKeyL2BlockNumber] != strconv.FormatUint(msg.L2BlockNumber, 10) {
				return fmt.Errorf("propose_output event does not describe the accepted proposal: %v", evs)
			}
		}
	case "delete":
		msg := st.Msg.(*ophosttypes.MsgDeleteOutput)
		signerOK := msg.Challenger == pre.prop || msg.Challenger == pre.chal || msg.Challenger == w.e.Authority
		inRange := msg.OutputIndex >= 1 && msg.OutputIndex < pre.next
		if st.Res.OK() {
			if !signerOK || !inRange {
				return fmt.Errorf("delete(index %d) accepted with signerAllowed=%v next=%d", msg.OutputIndex, signerOK, pre.next)
			}
			if pre.must {
				return fmt.Errorf("delete(index %d) accepted although that output was already final", msg.OutputIndex)
			}
			evs := henv.EventAttrs(st.Res.Events, ophosttypes.EventTypeDeleteOutput)
			if len(evs) != 1 || evs[0][ophosttypes.AttributeKeyOutputIndex] != strconv.FormatUint(msg.OutputIndex, 10) {
				return fmt.Errorf("delete_output event does not describe the deletion: %v", evs)
			}
		} else if signerOK && inRange && !pre.may {
			return fmt.Errorf("delete(index %d) of a not-yet-final output by an allowed signer was rejected: %v", msg.OutputIndex, st.Res.Err)
		}
	}
	return nil
}

type c11Pre = struct {
	next uint64
	prev uint64
	prop string
	chal string
	must bool
	may  bool
}

func (w *l1World) c11Pre() map[uint64]c11Pre {
	out := map[uint64]c11Pre{}
	for _, id := range w.ids {
		b := w.bridges[id]
		p := c11Pre{next: uint64(len(b.Outputs) + 1), prop: b.Proposer, chal: b.Challenger}
		if len(b.Outputs) > 0 {
			p.prev = b.Outputs[len(b.Outputs)-1].L2Block
		}
		out[id] = p
	}
	return out
}

func TestC11Rapid(t *testing.T) {
	rec := evid.For("C11")
	runRapid(t, 100, 6000, func(rt *rapid.T) {
		c := rec.Begin()
		w := newL1World(rt, l1Cfg{weights: c11Weights, maxBridges: 3, badCfgProb: 0,
			periods: []time.Duration{time.Second, 10 * time.Second, time.Minute, 500 * time.Millisecond, time.Nanosecond}, offsets: []time.Duration{-time.Second, -time.Nanosecond, 0, time.Nanosecond, time.Second, 2 * time.Second}})
		w.opCreate(rt, true)
		shape := ""
		midDelete := false
		bulkAt := -1
		if rapid.IntRange(0, 24).Draw(rt, "bulk") == 0 {
			bulkAt = rapid.IntRange(0, 25).Draw(rt, "bulkAt")
		}
		repeatSteps(rt, 50, func(i int) {
			if i == bulkAt && len(w.ids) > 0 {
				// a bridge whose log is far longer than one page of a paginated read
				w.bulkPropose(rt, w.bridges[w.ids[0]], rapid.SampledFrom([]int{101, 120, 140, 257, 300, 257, 300, 1030}).Draw(rt, "bulkN"))
				c.Class("bridge-with-more-than-100-outputs")
				if err := c11Log(w); err != nil {
					rt.Fatalf("C11 violated after the bulk proposals: %v\nhistory:\n%s", err, w.history())
				}
			}
			if rapid.IntRange(0, 29).Draw(rt, "roundtrip") == 0 {
				// the chain is exported and restarted from that genesis in the middle of the history
				w.restart(rt)
				c.Class("genesis-round-trip-inside-history")
				if err := c11Log(w); err != nil {
					rt.Fatalf("C11 violated after a genesis round trip: %v\nhistory:\n%s", err, w.history())
				}
			}
			pres := w.c11Pre()
			digest := w.e.Digest()
			others := map[uint64]string{}
			for _, id := range w.ids {
				others[id] = w.e.BridgeDigest(id, nil)
			}
			// what the chain itself calls final before the step (same block time as a delete inside the step)
			observedFinal := map[uint64]uint64{}
			for _, id := range w.ids {
				if lf, err := w.e.Q.LastFinalizedOutput(w.e.Ctx, &ophosttypes.QueryLastFinalizedOutputRequest{BridgeId: id}); err == nil {
					observedFinal[id] = lf.OutputIndex
				}
			}
			timeBefore := w.e.Ctx.BlockTime()
			st := w.step(rt)
			if st.Kind == "delete" && st.Res.OK() && w.e.Ctx.BlockTime().Equal(timeBefore) && st.OutIndex >= 1 && st.OutIndex <= observedFinal[st.Bridge] {
				rt.Fatalf("C11 violated at step %d: output %d of bridge %d was deleted at a block time at which Query/LastFinalizedOutput named index %d as final\nhistory:\n%s", i, st.OutIndex, st.Bridge, observedFinal[st.Bridge], w.history())
			}
			pre := pres[st.Bridge]
			if st.Kind == "delete" && st.Out != nil {
				pre.must, pre.may = false, false
				// finality of the target as of this block (time did not move inside the step)
				pre.must, pre.may = w.finalByModelAt(w.bridgeOrShadow(st.Bridge, pres), st.Out)
			}
			if err := c11Step(w, st, pre); err != nil {
				rt.Fatalf("C11 violated at step %d: %v\nhistory:\n%s", i, err, w.history())
			}
			if !st.Res.OK() && st.Kind != "advance" && st.Kind != "skip" && digest != w.e.Digest() {
				rt.Fatalf("C11: failed %s changed state\nhistory:\n%s", st.Kind, w.history())
			}
			if st.Kind == "propose" || st.Kind == "delete" {
				for _, id := range w.ids {
					if id != st.Bridge && others[id] != "" && others[id] != w.e.BridgeDigest(id, nil) {
						rt.Fatalf("C11: %s on bridge %d changed bridge %d\nhistory:\n%s", st.Kind, st.Bridge, id, w.history())
					}
				}
			}
			if err := c11Log(w); err != nil {
				rt.Fatalf("C11 violated after step %d: %v\nhistory:\n%s", i, err, w.history())
			}
			if st.Res.OK() && (st.Kind == "propose" || st.Kind == "delete") {
				shape += fmt.Sprintf("%s%d@%d;", st.Kind[:1], st.OutIndex, st.Bridge)
				c.Class(st.Kind + "-ok")
				if st.Kind == "delete" {
					// a delete in the middle of a log that has a final prefix
					b := w.bridges[st.Bridge]
					if len(b.Outputs) > 0 {
						if must, _ := w.finalByModel(b, b.Outputs[0]); must && pre.next-st.OutIndex >= 1 {
							midDelete = true
						}
					}
				}
			}
		})
		if midDelete {
			c.NonTrivial()
			c.Shape(shape)
			c.Class("delete-above-final-prefix")
		}
		c.Sample(func() interface{} { return map[string]interface{}{"history": w.log} })
		c.Done()
	})
}

func (w *l1World) bridgeOrShadow(id uint64, _ map[uint64]c11Pre) *mBridge { return w.bridges[id] }

func (w *l1World) finalByModelAt(b *mBridge, o *mOutput) (bool, bool) {
	if b == nil || o == nil {
		return false, false
	}
	return w.finalByModel(b, o)
}

// ---- bounded exhaustive enumeration ---------------------------------------------------------

// c11Node is the model in the enumeration: just the list of (l2block, time) per index.
type c11Out struct {
	l2   uint64
	at   time.Time
	root [32]byte
	h    int64
}

type c11Op struct {
	kind  string // P propose, D delete, T advance
	dIdx  int    // propose: index - next ∈ {-1,0,+1}; delete: 0 => index 1, 1 => next-1, 2 => next
	dBlk  int    // propose: l2 - prev ∈ {0,+1}
	dTime time.Duration
}

func (o c11Op) String() string {
	switch o.kind {
	case "P":
		return fmt.Sprintf("P(i%+d,b%+d)", o.dIdx, o.dBlk)
	case "D":
		return fmt.Sprintf("D(%d)", o.dIdx)
	case "R":
		return "R"
	}
	return fmt.Sprintf("T(%v)", o.dTime)
}

var c11Alphabet = func() []c11Op {
	var ops []c11Op
	for _, di := range []int{0, -1, 1} {
		for _, db := range []int{1, 0} {
			ops = append(ops, c11Op{kind: "P", dIdx: di, dBlk: db})
		}
	}
	for d := 0; d < 3; d++ {
		ops = append(ops, c11Op{kind: "D", dIdx: d})
	}
	ops = append(ops, c11Op{kind: "T", dTime: 4 * time.Second}, c11Op{kind: "T", dTime: 10 * time.Second})
	ops = append(ops, c11Op{kind: "R"}) // the last accepted proposal is delivered again, byte for byte
	return ops
}()

const c11Period = 10 * time.Second

func TestC11Exhaustive(t *testing.T) {
	rec := evid.For("C11")
	depth := 5
	if thorough() {
		depth = 6
	}
	e := henv.NewL1(henv.L1Options{NoHook: true})
	prop, chal := henv.MakeUser("c11-prop"), henv.MakeUser("c11-chal")
	if r := e.Deliver(ophosttypes.NewMsgCreateBridge(prop.Str, henv.DefaultBridgeConfig(prop.Str, chal.Str, c11Period))); !r.OK() {
		t.Fatal(r.Err)
	}
	count, firstOp := 0, 0
	type lastProp struct {
		idx, l2 uint64
		root    [32]byte
		ok      bool
	}
	var last lastProp
	var dfs func(ctx sdk.Context, model []c11Out, path []c11Op, d int)
	check := func(ctx sdk.Context, model []c11Out, path []c11Op) {
		e2 := *e
		e2.Ctx = ctx
		outs, err := queryAllOutputs(&e2, 1)
		if err != nil {
			caseFail(t, fmt.Sprint(path), "query: %v", err)
		}
		if len(outs) != len(model) {
			caseFail(t, fmt.Sprint(path), "stored %d outputs, model %d", len(outs), len(model))
		}
		for i, o := range outs {
			if o.OutputIndex != uint64(i+1) || o.OutputProposal.L2BlockNumber != model[i].l2 || !o.OutputProposal.L1BlockTime.Equal(model[i].at) ||
				!bytes.Equal(o.OutputProposal.OutputRoot, model[i].root[:]) || int64(o.OutputProposal.L1BlockNumber) != model[i].h {
				caseFail(t, fmt.Sprint(path), "stored output %d = %v differs from model %+v", i+1, o, model[i])
			}
			if i > 0 && outs[i-1].OutputProposal.L2BlockNumber >= o.OutputProposal.L2BlockNumber {
				caseFail(t, fmt.Sprint(path), "l2 block numbers not increasing at %d", i+1)
			}
		}
		last := uint64(0)
		for i, m := range model {
			if !ctx.BlockTime().Before(m.at.Add(c11Period)) {
				last = uint64(i + 1)
			}
		}
		lf, err := e2.Q.LastFinalizedOutput(ctx, &ophosttypes.QueryLastFinalizedOutputRequest{BridgeId: 1})
		if err != nil || lf.OutputIndex != last {
			caseFail(t, fmt.Sprint(path), "LastFinalizedOutput = %v (err %v), model %d", lf.OutputIndex, err, last)
		}
	}
	dfs = func(ctx sdk.Context, model []c11Out, path []c11Op, d int) {
		if d == depth {
			return
		}
		entryLast := last
		for oi, op := range c11Alphabet {
			last = entryLast // what was the last accepted proposal on the path leading here
			if d == 0 {
				firstOp = oi
			}
			if d == 1 && !enumShard(firstOp*len(c11Alphabet)+oi) {
				continue
			}
			npath := append(append([]c11Op{}, path...), op)
			if rc := replayCase(); rc != "" && !hasPrefix(rc, fmt.Sprint(npath)) && !hasPrefix(fmt.Sprint(npath), rc) {
				continue
			}
			cctx, _ := ctx.CacheContext()
			cctx = cctx.WithBlockHeight(ctx.BlockHeight() + 1)
			nmodel := append([]c11Out{}, model...)
			next := uint64(len(model) + 1)
			var prev uint64
			if len(model) > 0 {
				prev = model[len(model)-1].l2
			}
			e2 := *e
			e2.Ctx = cctx
			switch op.kind {
			case "T":
				cctx = cctx.WithBlockTime(ctx.BlockTime().Add(op.dTime))
			case "P":
				idx := uint64(int64(next) + int64(op.dIdx))
				l2 := prev + uint64(op.dBlk)
				if prev == 0 && op.dBlk == 0 {
					l2 = 0
				}
				var root [32]byte
				root[0], root[1], root[2] = byte(d), byte(oi), byte(len(path))
				r := e2.Deliver(ophosttypes.NewMsgProposeOutput(prop.Str, 1, idx, l2, root[:]))
				want := idx == next && (next == 1 || l2 > prev)
				if r.OK() != want {
					caseFail(t, fmt.Sprint(npath), "propose(index %d, l2 %d) next=%d prev=%d accepted=%v want %v (%v)", idx, l2, next, prev, r.OK(), want, r.Err)
				}
				if r.OK() {
					nmodel = append(nmodel, c11Out{l2: l2, at: cctx.BlockTime(), root: root, h: cctx.BlockHeight()})
					last = lastProp{idx: idx, l2: l2, root: root, ok: true}
				}
			case "R":
				if !last.ok {
					continue
				}
				r := e2.Deliver(ophosttypes.NewMsgProposeOutput(prop.Str, 1, last.idx, last.l2, last.root[:]))
				want := last.idx == next && (next == 1 || last.l2 > prev)
				if r.OK() != want {
					caseFail(t, fmt.Sprint(npath), "exact replay of proposal(index %d, l2 %d) with next=%d prev=%d: accepted=%v want %v (%v)", last.idx, last.l2, next, prev, r.OK(), want, r.Err)
				}
				if r.OK() {
					nmodel = append(nmodel, c11Out{l2: last.l2, at: cctx.BlockTime(), root: last.root, h: cctx.BlockHeight()})
				}
			case "D":
				idx := []uint64{1, next - 1, next}[op.dIdx]
				r := e2.Deliver(ophosttypes.NewMsgDeleteOutput(chal.Str, 1, idx))
				want := idx >= 1 && idx < next && cctx.BlockTime().Before(model[idx-1].at.Add(c11Period))
				if r.OK() != want {
					caseFail(t, fmt.Sprint(npath), "delete(index %d) next=%d accepted=%v want %v (%v)", idx, next, r.OK(), want, r.Err)
				}
				if r.OK() {
					nmodel = nmodel[:idx-1]
				}
			}
			check(cctx, nmodel, npath)
			count++
			if d+1 == depth {
				c := rec.Begin()
				c.Class("enumerated-sequence")
				nt := false
				for i, o := range npath {
					if o.kind == "D" && i > 0 {
						nt = true
					}
				}
				if nt && len(nmodel) > 0 {
					c.NonTrivial()
					c.Shape(fmt.Sprint(npath))
				}
				if count%5000 == 1 {
					pp := fmt.Sprint(npath)
					c.Sample(func() interface{} {
						return map[string]interface{}{"enumerated_sequence": pp, "final_log_length": len(nmodel)}
					})
				}
				c.Done()
			}
			dfs(cctx, nmodel, npath, d+1)
		}
		last = entryLast
	}
	dfs(e.Ctx, nil, nil, 0)
	rec.ExhaustiveSubspace(fmt.Sprintf("all propose/delete/advance sequences of depth %d over an alphabet of %d operations (index in {next-1,next,next+1}, block in {prev,prev+1}, delete of {1,next-1,next}, time steps below and at the period) on one bridge", depth, len(c11Alphabet)))
}

func hasPrefix(s, p string) bool {
	// path renderings look like "[a b c]"; compare without the closing bracket
	s, p = trimBracket(s), trimBracket(p)
	return len(s) >= len(p) && s[:len(p)] == p
}

func trimBracket(s string) string {
	if len(s) > 0 && s[len(s)-1] == ']' {
		return s[:len(s)-1]
	}
	return s
}
