package props

import (
	"bytes"
	_ "embed"
	"encoding/hex"
	"encoding/json"
	"fmt"
	"strconv"
	"strings"
	"testing"
	"time"

	"cosmossdk.io/math"
	sdk "github.com/cosmos/cosmos-sdk/types"
	"pgregory.net/rapid"

	ophosttypes "github.com/initia-labs/OPinit/x/ophost/types"

	"verifharness/evid"
	"verifharness/henv"
	"verifharness/ref"
)

//go:embed testdata/c17_vectors.json
var c17VectorsJSON []byte

type c17Vectors struct {
	Leaf []struct {
		BridgeID, Seq, Sender, Receiver, Denom, Amount, Hash string
	} `json:"-"`
	RawLeaf []map[string]string      `json:"leaf"`
	Node    []map[string]string      `json:"node"`
	Root    []map[string]interface{} `json:"root"`
	Output  []map[string]interface{} `json:"output_root"`
	L2Denom []map[string]string      `json:"l2denom"`
	Addr    []map[string]string      `json:"bridge_addr"`
}

func mustHex(s string) []byte {
	b, err := hex.DecodeString(s)
	if err != nil {
		panic(err)
	}
	return b
}

func mustU64(s string) uint64 {
	v, err := strconv.ParseUint(s, 10, 64)
	if err != nil {
		panic(err)
	}
	return v
}

// ---- memory layouts of a proof list -----------------------------------------------------

type proofLayout int

const (
	laySeparate    proofLayout = iota // every item its own allocation, cap == len
	layShared                         // consecutive sub-slices of one buffer
	layOverCap                        // own allocation with spare capacity holding sentinels
	layInterleaved                    // items interleaved with other live data in one buffer
	numLayouts
)

func (l proofLayout) String() string {
	return [...]string{"separate", "shared-buffer", "over-capacity", "interleaved"}[l]
}

// layProof lays items out in memory and returns the proof list plus every backing array in
// full (len == cap) so that bytes beyond len(item) can be compared before/after a call.
func layProof(items [][]byte, l proofLayout) (proof [][]byte, backing [][]byte) {
	switch l {
	case laySeparate:
		for _, it := range items {
			b := make([]byte, len(it))
			copy(b, it)
			b = b[:len(it):len(it)]
			proof = append(proof, b)
			backing = append(backing, b)
		}
	case layShared:
		buf := make([]byte, 0, 32*len(items)+24)
		for _, it := range items {
			buf = append(buf, it...)
		}
		for i := 0; i < 24; i++ {
			buf = append(buf, 0xC3)
		}
		off := 0
		for _, it := range items {
			proof = append(proof, buf[off:off+len(it)]) // capacity runs to the end of buf
			off += len(it)
		}
		backing = append(backing, buf[:cap(buf)])
	case layOverCap:
		for i, it := range items {
			b := make([]byte, len(it), len(it)+40+i)
			copy(b, it)
			full := b[:cap(b)]
			for j := len(it); j < len(full); j++ {
				full[j] = 0xA5
			}
			proof = append(proof, b)
			backing = append(backing, full)
		}
	case layInterleaved:
		// item ‖ 32 bytes of unrelated live data ‖ item ‖ ...
		buf := make([]byte, 0, 64*len(items)+8)
		for i, it := range items {
			buf = append(buf, it...)
			for j := 0; j < 32; j++ {
				buf = append(buf, byte(0x11*(i+1)))
			}
		}
		off := 0
		for _, it := range items {
			proof = append(proof, buf[off:off+len(it)])
			off += len(it) + 32
		}
		backing = append(backing, buf[:cap(buf)])
	}
	return proof, backing
}

func snapshot(bs [][]byte) [][]byte {
	out := make([][]byte, len(bs))
	for i, b := range bs {
		out[i] = append([]byte{}, b...)
	}
	return out
}

func sameBytes(a, b [][]byte) bool {
	if len(a) != len(b) {
		return false
	}
	for i := range a {
		if !bytes.Equal(a[i], b[i]) {
			return false
		}
	}
	return true
}

// checkRootAcrossLayouts computes the root over every layout and compares with want.
func checkRootAcrossLayouts(leaf [32]byte, items [][]byte, want [32]byte) error {
	for l := proofLayout(0); l < numLayouts; l++ {
		proof, backing := layProof(items, l)
		before := snapshot(backing)
		leafCopy := leaf
		got := ophosttypes.GenerateRootHashFromProofs(leafCopy, proof)
		if got != want {
			return fmt.Errorf("layout %s: root %x, want %x (same byte values; %d items)", l, got, want, len(items))
		}
		if !sameBytes(before, snapshot(backing)) {
			return fmt.Errorf("layout %s: GenerateRootHashFromProofs modified the caller's proof memory", l)
		}
		for i := range proof {
			if !bytes.Equal(proof[i], items[i]) {
				return fmt.Errorf("layout %s: proof item %d changed", l, i)
			}
		}
	}
	return nil
}

// ---- pinned vectors (third implementation: python hashlib) ------------------------------

func TestC17Vectors(t *testing.T) {
	rec := evid.For("C17")
	var v c17Vectors
	if err := json.Unmarshal(c17VectorsJSON, &v); err != nil {
		t.Fatal(err)
	}
	for i, x := range v.RawLeaf {
		c := rec.Begin()
		c.Class("vector/leaf")
		want := mustHex(x["hash"])
		bid, seq, amt := mustU64(x["bridge_id"]), mustU64(x["seq"]), mustU64(x["amount"])
		got := ophosttypes.GenerateWithdrawalHash(bid, seq, x["sender"], x["receiver"], x["denom"], amt)
		r := ref.Leaf(bid, seq, x["sender"], x["receiver"], x["denom"], amt)
		if !bytes.Equal(got[:], want) || !bytes.Equal(r[:], want) {
			caseFail(t, fmt.Sprintf("leaf/%d", i), "leaf vector: chain %x ref %x pinned %x", got, r, want)
		}
		c.Done()
	}
	for i, x := range v.Node {
		c := rec.Begin()
		c.Class("vector/node")
		a, b, want := mustHex(x["a"]), mustHex(x["b"]), mustHex(x["hash"])
		a2, b2 := append([]byte{}, a...), append([]byte{}, b...)
		got := ophosttypes.GenerateNodeHash(a2, b2)
		got2 := ophosttypes.GenerateNodeHash(b2, a2)
		r := ref.Node(a, b)
		if !bytes.Equal(got[:], want) || !bytes.Equal(r[:], want) || got != got2 {
			caseFail(t, fmt.Sprintf("node/%d", i), "node vector: chain %x / swapped %x ref %x pinned %x", got, got2, r, want)
		}
		if !bytes.Equal(a, a2) || !bytes.Equal(b, b2) {
			caseFail(t, fmt.Sprintf("node/%d", i), "GenerateNodeHash modified its arguments")
		}
		c.Done()
	}
	for i, x := range v.Root {
		c := rec.Begin()
		c.Class("vector/root")
		var leaf [32]byte
		copy(leaf[:], mustHex(x["leaf"].(string)))
		var items [][]byte
		for _, p := range x["proof"].([]interface{}) {
			items = append(items, mustHex(p.(string)))
		}
		var want [32]byte
		copy(want[:], mustHex(x["root"].(string)))
		if r := ref.RootFromProof(leaf, items); r != want {
			caseFail(t, fmt.Sprintf("root/%d", i), "ref root %x pinned %x", r, want)
		}
		if err := checkRootAcrossLayouts(leaf, items, want); err != nil {
			caseFail(t, fmt.Sprintf("root/%d", i), "%v", err)
		}
		if len(items) >= 2 {
			c.NonTrivial()
			c.Shape(fmt.Sprintf("vector-root-%d", i))
		}
		if i == 5 {
			c.Sample(func() interface{} {
				return map[string]interface{}{"kind": "pinned root vector, all 4 layouts", "vector": x}
			})
		}
		c.Done()
	}
	for i, x := range v.Output {
		c := rec.Begin()
		c.Class("vector/output_root")
		ver := byte(x["version"].(float64))
		sr, bh, want := mustHex(x["storage_root"].(string)), mustHex(x["block_hash"].(string)), mustHex(x["root"].(string))
		sr2, bh2 := append([]byte{}, sr...), append([]byte{}, bh...)
		got := ophosttypes.GenerateOutputRoot(ver, sr2, bh2)
		r := ref.OutputRoot(ver, sr, bh)
		if !bytes.Equal(got[:], want) || !bytes.Equal(r[:], want) || !bytes.Equal(sr, sr2) || !bytes.Equal(bh, bh2) {
			caseFail(t, fmt.Sprintf("output/%d", i), "output root vector: chain %x ref %x pinned %x", got, r, want)
		}
		c.Done()
	}
	for i, x := range v.L2Denom {
		c := rec.Begin()
		c.Class("vector/l2denom")
		bid := mustU64(x["bridge_id"])
		got, r := ophosttypes.L2Denom(bid, x["l1_denom"]), ref.L2Denom(bid, x["l1_denom"])
		if got != x["l2_denom"] || r != x["l2_denom"] {
			caseFail(t, fmt.Sprintf("l2denom/%d", i), "l2 denom vector: chain %s ref %s pinned %s", got, r, x["l2_denom"])
		}
		c.Done()
	}
	for i, x := range v.Addr {
		c := rec.Begin()
		c.Class("vector/bridge_addr")
		bid := mustU64(x["bridge_id"])
		got, r, want := ophosttypes.BridgeAddress(bid), ref.BridgeAddress(bid), mustHex(x["addr"])
		if !bytes.Equal(got, want) || !bytes.Equal(r, want) {
			caseFail(t, fmt.Sprintf("addr/%d", i), "bridge address vector: chain %x ref %x pinned %x", got, r, want)
		}
		c.Done()
	}
}

// ---- generated inputs -----------------------------------------------------------------------

var c17U64 = rapid.OneOf(
	rapid.SampledFrom([]uint64{0, 1, 2, 255, 256, 1<<32 - 1, 1 << 32, 1<<63 - 1, 1 << 63, 1<<64 - 2, 1<<64 - 1}),
	rapid.Uint64(),
)

var c17Str = rapid.OneOf(
	rapid.SampledFrom([]string{"", "a", "uinit", "init1qqqq", "l2/ab", "é日本語", "a\x00b", " x", "x ", "X", "x"}),
	rapid.StringN(0, 40, 400),
	rapid.StringOfN(rapid.RuneFrom([]rune("abcdefghijklmnopqrstuvwxyz0123456789/")), 0, 130, -1),
)

func genNode32() *rapid.Generator[[]byte] {
	return rapid.OneOf(
		rapid.SampledFrom([][]byte{bytes.Repeat([]byte{0}, 32), bytes.Repeat([]byte{0xff}, 32), append(bytes.Repeat([]byte{0}, 31), 1), append([]byte{0x80}, bytes.Repeat([]byte{0}, 31)...)}),
		rapid.SliceOfN(rapid.Byte(), 32, 32),
	)
}

func TestC17Rapid(t *testing.T) {
	rec := evid.For("C17")
	runRapid(t, 6000, 400000, func(rt *rapid.T) {
		c := rec.Begin()
		kind := drawWeighted(rt, "kind", []weighted{{"proof", 5}, {"node", 2}, {"leaf", 2}, {"ids", 1}})
		c.Class("rapid/" + kind)
		switch kind {
		case "leaf":
			bid, seq, amt := c17U64.Draw(rt, "bridge"), c17U64.Draw(rt, "seq"), c17U64.Draw(rt, "amount")
			s, r, d := c17Str.Draw(rt, "sender"), c17Str.Draw(rt, "receiver"), c17Str.Draw(rt, "denom")
			got, want := ophosttypes.GenerateWithdrawalHash(bid, seq, s, r, d, amt), ref.Leaf(bid, seq, s, r, d, amt)
			if got != want {
				rt.Fatalf("leaf(%d,%d,%q,%q,%q,%d): chain %x, independent implementation %x", bid, seq, s, r, d, amt, got, want)
			}
			c.Sample(func() interface{} {
				return map[string]interface{}{"kind": "leaf", "bridge": bid, "seq": seq, "sender": s, "receiver": r, "denom": d, "amount": amt}
			})
		case "node":
			a := genNode32().Draw(rt, "a")
			b := genNode32().Draw(rt, "b")
			rel := rapid.SampledFrom([]string{"free", "equal", "adjacent", "prefix"}).Draw(rt, "rel")
			switch rel {
			case "equal":
				b = append([]byte{}, a...)
			case "adjacent":
				b = append([]byte{}, a...)
				b[31]++
			case "prefix":
				b = append(append([]byte{}, a[:31]...), b[31])
			}
			c.Class("node/" + rel)
			lay := proofLayout(rapid.IntRange(0, int(numLayouts)-1).Draw(rt, "layout"))
			pl, backing := layProof([][]byte{a, b}, lay)
			before := snapshot(backing)
			g1 := ophosttypes.GenerateNodeHash(pl[0], pl[1])
			mid := snapshot(backing)
			g2 := ophosttypes.GenerateNodeHash(pl[1], pl[0])
			want := ref.Node(a, b)
			if !sameBytes(before, mid) || !sameBytes(before, snapshot(backing)) {
				rt.Fatalf("GenerateNodeHash modified caller memory (layout %s)", lay)
			}
			if g1 != want || g2 != want {
				rt.Fatalf("node(%x,%x) layout %s: chain %x, swapped %x, independent implementation %x", a, b, lay, g1, g2, want)
			}
			if lay != laySeparate {
				c.NonTrivial()
				c.Shape(fmt.Sprintf("node/%s/%s/%d", rel, lay, bytes.Compare(a, b)))
			}
		case "proof":
			var leaf [32]byte
			copy(leaf[:], genNode32().Draw(rt, "leaf"))
			n := rapid.IntRange(0, 12).Draw(rt, "n")
			items := make([][]byte, n)
			for i := range items {
				items[i] = genNode32().Draw(rt, "item")
			}
			want := ref.RootFromProof(leaf, items)
			if err := checkRootAcrossLayouts(leaf, items, want); err != nil {
				rt.Fatalf("%v", err)
			}
			c.Classf("proof/len=%d", n)
			if n >= 2 {
				c.NonTrivial()
				// distinctness: the ordering pattern of (current node vs item) along the path
				pat := ""
				cur := leaf
				for _, it := range items {
					if bytes.Compare(cur[:], it) >= 0 {
						pat += "G"
					} else {
						pat += "L"
					}
					cur = ref.Node(cur[:], it)
				}
				c.Shape("proof/" + pat + fmt.Sprintf("/%x", want[:3]))
			}
			c.Sample(func() interface{} {
				hx := make([]string, len(items))
				for i := range items {
					hx[i] = hex.EncodeToString(items[i])
				}
				return map[string]interface{}{"kind": "root-from-proof over 4 memory layouts", "leaf": hex.EncodeToString(leaf[:]), "proof": hx}
			})
		case "ids":
			bid := c17U64.Draw(rt, "bridge")
			d := c17Str.Draw(rt, "denom")
			if g, w := ophosttypes.L2Denom(bid, d), ref.L2Denom(bid, d); g != w {
				rt.Fatalf("L2Denom(%d,%q): chain %s, independent implementation %s", bid, d, g, w)
			}
			if g, w := ophosttypes.BridgeAddress(bid), ref.BridgeAddress(bid); !bytes.Equal(g, w) {
				rt.Fatalf("BridgeAddress(%d): chain %x, independent implementation %x", bid, g, w)
			}
			ver := rapid.Byte().Draw(rt, "version")
			sr, bh := genNode32().Draw(rt, "sr"), genNode32().Draw(rt, "bh")
			pl, backing := layProof([][]byte{sr, bh}, proofLayout(rapid.IntRange(0, int(numLayouts)-1).Draw(rt, "layout")))
			before := snapshot(backing)
			if g, w := ophosttypes.GenerateOutputRoot(ver, pl[0], pl[1]), ref.OutputRoot(ver, sr, bh); g != w {
				rt.Fatalf("OutputRoot(%d,%x,%x): chain %x, independent implementation %x", ver, sr, bh, g, w)
			}
			if !sameBytes(before, snapshot(backing)) {
				rt.Fatalf("GenerateOutputRoot modified caller memory")
			}
		}
		c.Done()
	})
}

// ---- the handler's verdict must not depend on the memory layout ---------------------------

// c17World is an L1 chain with one bridge and one finalized output over `leaves` withdrawals.
type c17World struct {
	e         *henv.L1
	users     []henv.User
	tree      *ref.Tree
	storage   [32]byte
	blockHash []byte
	n         int
}

func newC17World(n int) *c17World {
	e := henv.NewL1(henv.L1Options{NoHook: true})
	w := &c17World{e: e, n: n}
	for i := 0; i < 3; i++ {
		w.users = append(w.users, henv.MakeUser(fmt.Sprintf("c17-%d", i)))
	}
	cfg := henv.DefaultBridgeConfig(w.users[0].Str, w.users[1].Str, time.Minute)
	if r := e.Deliver(ophosttypes.NewMsgCreateBridge(w.users[0].Str, cfg)); !r.OK() {
		panic(r.Err)
	}
	e.Fund(ophosttypes.BridgeAddress(1), sdk.NewCoin("uinit", math.NewInt(1_000_000_000)))
	leaves := make([][32]byte, n)
	for i := 0; i < n; i++ {
		leaves[i] = ref.Leaf(1, uint64(i+1), "l2sender", w.users[2].Str, "uinit", uint64(10+i))
	}
	w.tree = ref.BuildTree(leaves)
	w.storage = w.tree.Root()
	w.blockHash = bytes.Repeat([]byte{0x42}, 32)
	root := ref.OutputRoot(1, w.storage[:], w.blockHash)
	if r := e.Deliver(ophosttypes.NewMsgProposeOutput(w.users[0].Str, 1, 1, 100, root[:])); !r.OK() {
		panic(r.Err)
	}
	e.Advance(2 * time.Minute)
	return w
}

func (w *c17World) claim(i int, proof [][]byte) *ophosttypes.MsgFinalizeTokenWithdrawal {
	return ophosttypes.NewMsgFinalizeTokenWithdrawal(w.users[2].Str, 1, 1, uint64(i+1), proof, "l2sender", w.users[2].Str,
		sdk.NewCoin("uinit", math.NewInt(int64(10+i))), []byte{1}, append([]byte{}, w.storage[:]...), append([]byte{}, w.blockHash...))
}

func TestC17HandlerLayouts(t *testing.T) {
	rec := evid.For("C17")
	sizes := []int{2, 3, 5, 8, 13}
	if thorough() {
		sizes = []int{2, 3, 4, 5, 6, 7, 8, 9, 13, 16, 17, 31, 33}
	}
	caseNo := 0
	for _, n := range sizes {
		w := newC17World(n)
		for i := 0; i < n; i++ {
			caseNo++
			if !enumShard(caseNo) {
				continue
			}
			id := fmt.Sprintf("n=%d/i=%d", n, i)
			if rc := replayCase(); rc != "" && rc != id {
				continue
			}
			c := rec.Begin()
			c.Class("handler-layouts")
			items, _ := w.tree.Proof(i)
			verdicts := ""
			for l := proofLayout(0); l < numLayouts; l++ {
				proof, backing := layProof(items, l)
				before := snapshot(backing)
				msg := w.claim(i, proof)
				if (int(l)+i)%2 == 1 {
					// the message's other byte fields are consecutive sub-slices of one buffer (version | block hash |
					// storage root | unrelated data), each with capacity running to the end of it
					arena := make([]byte, 0, 1+32+32+16)
					arena = append(append(append(arena, msg.Version...), msg.LastBlockHash...), msg.StorageRoot...)
					arena = append(arena, bytes.Repeat([]byte{0x5A}, 16)...)
					msg.Version, msg.LastBlockHash, msg.StorageRoot = arena[0:1], arena[1:33], arena[33:65]
					backing = append(backing, arena[:cap(arena)])
					before = snapshot(backing)
				}
				sr, bh := append([]byte{}, msg.StorageRoot...), append([]byte{}, msg.LastBlockHash...)
				cctx, _ := w.e.Ctx.CacheContext()
				saved := w.e.Ctx
				w.e.Ctx = cctx
				r := w.e.DeliverDirect(msg) // the handler gets the caller's own slices
				w.e.Ctx = saved
				if !sameBytes(before, snapshot(backing)) || !bytes.Equal(sr, msg.StorageRoot) || !bytes.Equal(bh, msg.LastBlockHash) {
					caseFail(t, id, "FinalizeTokenWithdrawal modified the caller's message/proof bytes (layout %s)", l)
				}
				if r.OK() {
					verdicts += "A"
				} else {
					verdicts += "R"
				}
				if !r.OK() {
					caseFail(t, id, "valid claim rejected under layout %s (accepted/rejected per layout so far: %s): %v", l, verdicts, r.Err)
				}
			}
			if len(items) >= 2 {
				c.NonTrivial()
				c.Shape("handler/" + id)
			}
			if i == 0 {
				c.Sample(func() interface{} {
					return map[string]interface{}{"kind": "valid claim verified under 4 proof layouts", "tree_size": n, "leaf": i, "proof_len": len(items), "verdicts": verdicts}
				})
			}
			c.Done()
		}
	}
	rec.ExhaustiveSubspace(fmt.Sprintf("handler verdict × 4 layouts for every leaf of trees of sizes %v", sizes))
}

// ---- derivations do not influence each other; verification is safe to run concurrently ----------

// TestC17Sequences: a derivation must be a function of its own arguments only. Sequences of
// related inputs are derived in one process - ids and denoms whose decimal / byte renderings
// concatenate to the same text ((2,"uinit1") and (12,"uinit")), shared prefixes, the same pair
// before and after others - and every single result is compared with the independent implementation.
func TestC17Sequences(t *testing.T) {
	rec := evid.For("C17")
	runRapid(t, 1500, 40000, func(rt *rapid.T) {
		c := rec.Begin()
		c.Class("sequence")
		base := rapid.SampledFrom([]string{"uinit", "uusdc", "ibc/ABCDEF", "x", "token0", "a1b"}).Draw(rt, "base")
		type pair struct {
			id    uint64
			denom string
		}
		var seq []pair
		n := rapid.IntRange(2, 6).Draw(rt, "n")
		for i := 0; i < n; i++ {
			digits := rapid.StringMatching("[1-9][0-9]{0,2}").Draw(rt, "digits")
			id := uint64(rapid.IntRange(0, 99).Draw(rt, "id"))
			// (id, base+digits) and (digits‖id as a number, base): the renderings "base+digits+id" coincide
			var shifted uint64
			fmt.Sscanf(digits+fmt.Sprint(id), "%d", &shifted)
			seq = append(seq, pair{id, base + digits}, pair{shifted, base})
		}
		if rapid.Bool().Draw(rt, "again") {
			seq = append(seq, seq[0], seq[1])
		}
		for i, p := range seq {
			if got, want := ophosttypes.L2Denom(p.id, p.denom), ref.L2Denom(p.id, p.denom); got != want {
				rt.Fatalf("derivation %d of the sequence %v: L2Denom(%d,%q) = %s, independent implementation %s (the result depends on earlier derivations)", i, seq, p.id, p.denom, got, want)
			}
			if got, want := ophosttypes.BridgeAddress(p.id), ref.BridgeAddress(p.id); !bytes.Equal(got, want) {
				rt.Fatalf("derivation %d of the sequence: BridgeAddress(%d) = %x, independent implementation %x", i, p.id, got, want)
			}
			l1, l2 := ophosttypes.GenerateWithdrawalHash(p.id, uint64(i), p.denom, base, p.denom, p.id), ref.Leaf(p.id, uint64(i), p.denom, base, p.denom, p.id)
			if l1 != l2 {
				rt.Fatalf("derivation %d of the sequence: leaf differs from the independent implementation", i)
			}
		}
		c.NonTrivial()
		c.Shape(fmt.Sprintf("seq/%s/%d/%v", base, len(seq), seq[0]))
		c.Sample(func() interface{} {
			return map[string]interface{}{"kind": "sequence of related derivations", "pairs": fmt.Sprint(seq)}
		})
		c.Done()
	})
}

// TestC17Concurrent: several goroutines verify their own proofs at the same time (as CheckTx,
// simulation and block execution do); every result must equal the independent implementation.
// A schedule-dependent failure has no shrunk input: the failing worker's inputs are printed.
func TestC17Concurrent(t *testing.T) {
	rec := evid.For("C17")
	const workers, rounds = 8, 400
	type job struct {
		leaf  [32]byte
		items [][]byte
		want  [32]byte
	}
	jobs := make([][]job, workers)
	for w := 0; w < workers; w++ {
		for r := 0; r < rounds; r++ {
			var j job
			for i := range j.leaf {
				j.leaf[i] = byte(w*31 + r*7 + i)
			}
			n := 1 + (w+r)%9
			for k := 0; k < n; k++ {
				it := make([]byte, 32)
				for i := range it {
					it[i] = byte(w*13 + r*5 + k*3 + i*i)
				}
				j.items = append(j.items, it)
			}
			j.want = ref.RootFromProof(j.leaf, j.items)
			jobs[w] = append(jobs[w], j)
		}
	}
	errs := make(chan string, workers)
	done := make(chan struct{})
	for w := 0; w < workers; w++ {
		go func(w int) {
			defer func() { done <- struct{}{} }()
			for r, j := range jobs[w] {
				if got := ophosttypes.GenerateRootHashFromProofs(j.leaf, j.items); got != j.want {
					errs <- fmt.Sprintf("worker %d round %d: root %x, independent implementation %x (leaf %x, %d items)", w, r, got, j.want, j.leaf, len(j.items))
					return
				}
				if got := ophosttypes.GenerateOutputRoot(byte(r), j.leaf[:], j.want[:]); got != ref.OutputRoot(byte(r), j.leaf[:], j.want[:]) {
					errs <- fmt.Sprintf("worker %d round %d: output root differs", w, r)
					return
				}
			}
		}(w)
	}
	for w := 0; w < workers; w++ {
		<-done
	}
	close(errs)
	for e := range errs {
		caseFail(t, "concurrent", "verification under concurrency does not depend only on the bytes supplied: %s", e)
	}
	for w := 0; w < workers; w++ {
		c := rec.Begin()
		c.Class("concurrent-worker")
		c.NonTrivial()
		c.Shape(fmt.Sprintf("concurrent/%d", w))
		c.Done()
	}
	rec.Note(fmt.Sprintf("%d goroutines x %d rounds of concurrent root / output-root computations compared with the reference", workers, rounds))
}

// TestC17HandlerFormat: the chain verifies claims against exactly the published commitment format
// over the bytes of the message fields: a prover that hashes the strings L2 recorded (any spelling
// of the receiver that the address codec accepts, any sender string, any denom, the full amount and
// sequence range) with the independent implementation must be paid.
func TestC17HandlerFormat(t *testing.T) {
	rec := evid.For("C17")
	runRapid(t, 600, 20000, func(rt *rapid.T) {
		c := rec.Begin()
		c.Class("handler-format")
		e := henv.NewL1(henv.L1Options{NoHook: true})
		prop, chal, sub := henv.MakeUser("c17f-p"), henv.MakeUser("c17f-c"), henv.MakeUser("c17f-s")
		if r := e.Deliver(ophosttypes.NewMsgCreateBridge(prop.Str, henv.DefaultBridgeConfig(prop.Str, chal.Str, time.Minute))); !r.OK() {
			panic(r.Err)
		}
		big, _ := math.NewIntFromString("1180591620717411303424")
		// one of the tokens carries a name that looks like a derived L2 denom (the host chain may itself be a rollup),
		// and the bridge has registered pairs for "uinit" and for that token through earlier deposits
		denoms := []string{"uinit", "ibc/27394FB092D2ECCD56123C74F36E4C1F926001CEADA9CA97EA622B25F41E5EB2", "Mixed/Case-denom.x_1", ref.L2Denom(1, "uinit")}
		for _, d := range denoms {
			e.Fund(ophosttypes.BridgeAddress(1), sdk.NewCoin(d, big))
		}
		e.Fund(prop.Addr, coinOf("uinit", 5), coinOf(ref.L2Denom(1, "uinit"), 5))
		for _, d := range []string{"uinit", ref.L2Denom(1, "uinit")} {
			if rapid.Bool().Draw(rt, "pairRegistered") {
				if r := e.Deliver(ophosttypes.NewMsgInitiateTokenDeposit(prop.Str, 1, "l2-recipient", coinOf(d, 1), nil)); !r.OK() {
					panic(r.Err)
				}
			}
		}
		hrp := sdk.GetConfig().GetBech32AccountAddrPrefix()
		n := rapid.IntRange(1, 5).Draw(rt, "leaves")
		var ts []wd
		shape := ""
		for i := 0; i < n; i++ {
			u := henv.MakeUser(fmt.Sprintf("c17f-r%d", rapid.IntRange(0, 3).Draw(rt, "ru")))
			to := u.Str
			spelling := rapid.SampledFrom([]string{"lower", "lower", "upper", "long", "short"}).Draw(rt, "spelling")
			switch spelling {
			case "upper":
				to = strings.ToUpper(u.Str)
			case "long":
				to = bech(hrp, append(append([]byte{}, u.Addr...), bytes.Repeat([]byte{9}, 12)...))
			case "short":
				to = bech(hrp, u.Addr[:rapid.IntRange(1, 19).Draw(rt, "len")])
			}
			from := rapid.SampledFrom([]string{"l2sender", u.Str, strings.ToUpper(u.Str), "送信者 with spaces", "a\x00b", strings.Repeat("s", 300), "0x52908400098527886E0F7030069857D2E4169EE7", "0xde709f2102306220921060314715629080e2fb77"}).Draw(rt, "from")
			amt := rapid.SampledFrom([]uint64{1, 2, 1 << 32, 1<<63 - 1, 1 << 63, ^uint64(0)}).Draw(rt, "amount")
			seq := rapid.SampledFrom([]uint64{1, 2, 255, 256, 1 << 32, 1 << 63, ^uint64(0)}).Draw(rt, "seq") - uint64(i)
			if seq == 0 {
				seq = uint64(i) + 7
			}
			ts = append(ts, wd{Bridge: 1, Seq: seq, From: from, To: to, Denom: rapid.SampledFrom(denoms).Draw(rt, "denom"), Amount: amt})
			shape += spelling[:2]
			c.Class("handler-format/receiver-" + spelling)
		}
		o := buildOutput(ts, byte(rapid.IntRange(0, 255).Draw(rt, "version")), rapid.SliceOfN(rapid.Byte(), 32, 32).Draw(rt, "blockhash"))
		// the output that commits them is the bridge's first, second or third (index and bridge id then differ)
		outIdx := uint64(rapid.IntRange(1, 3).Draw(rt, "outputIndex"))
		for k := uint64(1); k < outIdx; k++ {
			if r := e.Deliver(ophosttypes.NewMsgProposeOutput(prop.Str, 1, k, 3+k, bytes.Repeat([]byte{byte(k)}, 32))); !r.OK() {
				panic(r.Err)
			}
		}
		if r := e.Deliver(ophosttypes.NewMsgProposeOutput(prop.Str, 1, outIdx, 10, o.Root[:])); !r.OK() {
			panic(r.Err)
		}
		o.Index = outIdx
		c.Classf("handler-format/output-index-%d", outIdx)
		// ... and it need not be the newest one when the claims arrive: up to two further outputs follow and become final too
		for k := uint64(1); k <= uint64(rapid.IntRange(0, 2).Draw(rt, "laterOutputs")); k++ {
			if r := e.Deliver(ophosttypes.NewMsgProposeOutput(prop.Str, 1, outIdx+k, 10+k, bytes.Repeat([]byte{byte(0x40 + k)}, 32))); !r.OK() {
				panic(r.Err)
			}
			c.Class("handler-format/claims-against-an-older-final-output")
		}
		e.Advance(2 * time.Minute)
		// a claim's verdict depends on its bytes and the stored output only: the same refusals when the message is
		// run in the node's simulation mode (gas estimation) instead of block delivery
		inSimulation := func(m sdk.Msg) henv.Result {
			saved := e.Ctx
			cctx, _ := e.Ctx.CacheContext()
			e.Ctx = cctx.WithExecMode(sdk.ExecModeSimulate)
			defer func() { e.Ctx = saved }()
			return e.Deliver(m)
		}
		for i, tu := range ts {
			dup := false
			for _, prev := range ts[:i] {
				if prev.leaf() == tu.leaf() {
					dup = true
				}
			}
			if dup {
				continue
			}
			// the same claim with one more proof element does not hash up to the committed root: refused
			longer := claimMsg(sub.Str, tu, o, outIdx, i)
			longer.WithdrawalProofs = append(longer.WithdrawalProofs, rapid.SampledFrom([][]byte{o.Storage[:], bytes.Repeat([]byte{0}, 32), bytes.Repeat([]byte{0xab}, 32)}).Draw(rt, "extra"))
			if r := inSimulation(longer); r.OK() {
				rt.Fatalf("C17 violated: in simulation mode a claim whose proof list continues past the committed root was accepted (block delivery decides by the same bytes): seq=%d leaf %d of %d", tu.Seq, i, n)
			}
			if r := e.Deliver(longer); r.OK() {
				rt.Fatalf("C17 violated: a claim whose proof list continues past the committed root (it folds to another value under the published rule) was accepted: seq=%d leaf %d of %d, %d proof items", tu.Seq, i, n, len(longer.WithdrawalProofs))
			}
			// the same claim for 2^64 more: the commitment format has 64 bits for the amount, nothing wider verifies
			wider := claimMsg(sub.Str, tu, o, outIdx, i)
			two64, _ := math.NewIntFromString("18446744073709551616")
			wider.Amount.Amount = wider.Amount.Amount.Add(two64)
			if r := e.Deliver(wider); r.OK() {
				rt.Fatalf("C17 violated: a claim for %s was accepted with the proof of a withdrawal of %d (the amount is committed as a 64-bit number)", wider.Amount, tu.Amount)
			}
			// the same claim under another version byte / block hash does not reproduce the stored output root - whether
			// or not other claims against this output have been paid before
			for _, field := range []string{"version", "last_block_hash"} {
				wrong := claimMsg(sub.Str, tu, o, outIdx, i)
				if field == "version" {
					wrong.Version = []byte{wrong.Version[0] ^ byte(1<<uint(rapid.IntRange(0, 7).Draw(rt, "vbit")))}
				} else {
					wrong.LastBlockHash = append([]byte{}, wrong.LastBlockHash...)
					wrong.LastBlockHash[rapid.IntRange(0, 31).Draw(rt, "hbyte")] ^= 0x40
				}
				if r := e.Deliver(wrong); r.OK() {
					rt.Fatalf("C17 violated: a claim with a changed %s was accepted (leaf %d of %d, %d claims paid before): sha3(version | storage_root | last_block_hash) is not the stored output root", field, i, n, i)
				}
			}
			if r := inSimulation(wider); r.OK() {
				rt.Fatalf("C17 violated: in simulation mode a claim for %s was accepted with the proof of a withdrawal of %d", wider.Amount, tu.Amount)
			}
			r := e.Deliver(claimMsg(sub.Str, tu, o, outIdx, i))
			if !r.OK() {
				rt.Fatalf("C17 violated: a claim whose commitment was computed by the published format over the message's own fields is rejected: %v\n  withdrawal: seq=%d from=%q to=%q amount=%d%s (leaf %d of %d)", r.Err, tu.Seq, truncStr(tu.From, 40), tu.To, tu.Amount, tu.Denom, i, n)
			}
			evs := henv.EventAttrs(r.Events, ophosttypes.EventTypeFinalizeTokenWithdrawal)
			if len(evs) != 1 || evs[0][ophosttypes.AttributeKeyTo] != tu.To || evs[0][ophosttypes.AttributeKeyFrom] != tu.From {
				rt.Fatalf("C17 violated: the finalize_token_withdrawal event does not carry the committed strings: %v (committed from=%q to=%q)", evs, truncStr(tu.From, 40), tu.To)
			}
			wantEv := map[string]string{
				ophosttypes.AttributeKeyBridgeId:    "1",
				ophosttypes.AttributeKeyOutputIndex: fmt.Sprint(outIdx),
				ophosttypes.AttributeKeyL2Sequence:  fmt.Sprint(tu.Seq),
				ophosttypes.AttributeKeyL1Denom:     tu.Denom,
				ophosttypes.AttributeKeyL2Denom:     ref.L2Denom(1, tu.Denom),
				ophosttypes.AttributeKeyAmount:      fmt.Sprint(tu.Amount),
			}
			for k, v := range wantEv {
				if got := evs[0][k]; got != v {
					rt.Fatalf("C17 violated: the finalize_token_withdrawal event says %s=%q; by the published formats it is %q (bridge 1, output %d, %d%s)", k, got, v, outIdx, tu.Amount, tu.Denom)
				}
			}
		}
		c.NonTrivial()
		c.Shape(fmt.Sprintf("handler-format/%d/%s", n, shape))
		c.Sample(func() interface{} {
			return map[string]interface{}{"kind": "claims verified by the chain against independently computed commitments", "leaves": n, "receiver_spellings": shape}
		})
		c.Done()
	})
}

// TestC17Queries: the identifiers the chain reports are the published derivations, for every bridge
// and whatever the other bridges hold: after each of a series of deposits into several bridges, for
// every (bridge, denom) pair Query/TokenPairByL1Denom must name ref.L2Denom, Query/TokenPairByL2Denom
// must map it back exactly when that bridge has seen a deposit of the denom, and Query/TokenPairs must
// list exactly those pairs.
func TestC17Queries(t *testing.T) {
	rec := evid.For("C17")
	runRapid(t, 150, 10000, func(rt *rapid.T) {
		c := rec.Begin()
		c.Class("queries")
		e := henv.NewL1(henv.L1Options{NoHook: true})
		u := henv.MakeUser("c17q")
		denoms := []string{"uinit", "uusdc", "ibc/27394FB092D2ECCD56123C74F36E4C1F926001CEADA9CA97EA622B25F41E5EB2", "uINIT"}
		for _, d := range denoms {
			e.Fund(u.Addr, coinOf(d, 1_000_000))
		}
		nb := rapid.IntRange(2, 4).Draw(rt, "bridges")
		for i := 0; i < nb; i++ {
			if r := e.Deliver(ophosttypes.NewMsgCreateBridge(u.Str, henv.DefaultBridgeConfig(u.Str, u.Str, time.Minute))); !r.OK() {
				panic(r.Err)
			}
		}
		seen := map[string]bool{}
		shared := false
		repeatSteps(rt, 12, func(i int) {
			b := uint64(rapid.IntRange(1, nb).Draw(rt, "bridge"))
			d := rapid.SampledFrom(denoms).Draw(rt, "denom")
			if r := e.Deliver(ophosttypes.NewMsgInitiateTokenDeposit(u.Str, b, "l2-recipient", coinOf(d, int64(rapid.IntRange(0, 9).Draw(rt, "amt"))), nil)); !r.OK() {
				rt.Fatalf("setup: deposit refused: %v", r.Err)
			}
			seen[fmt.Sprintf("%d/%s", b, d)] = true
			for ob := uint64(1); ob <= uint64(nb); ob++ {
				if ob != b && seen[fmt.Sprintf("%d/%s", ob, d)] {
					shared = true
				}
			}
			for qb := uint64(1); qb <= uint64(nb); qb++ {
				want := 0
				for _, qd := range denoms {
					l2 := ref.L2Denom(qb, qd)
					r1, err := e.Q.TokenPairByL1Denom(e.Ctx, &ophosttypes.QueryTokenPairByL1DenomRequest{BridgeId: qb, L1Denom: qd})
					if err != nil || r1.TokenPair.L2Denom != l2 || r1.TokenPair.L1Denom != qd {
						rt.Fatalf("C17 violated: Query/TokenPairByL1Denom(bridge %d, %s) = %v (err %v), the published derivation gives %s", qb, qd, r1.GetTokenPair(), err, l2)
					}
					r2, err := e.Q.TokenPairByL2Denom(e.Ctx, &ophosttypes.QueryTokenPairByL2DenomRequest{BridgeId: qb, L2Denom: l2})
					if seen[fmt.Sprintf("%d/%s", qb, qd)] {
						want++
						if err != nil || r2.TokenPair.L1Denom != qd {
							rt.Fatalf("C17 violated: Query/TokenPairByL2Denom(bridge %d, %s) = %v (err %v), bridge %d has seen a deposit of %s", qb, l2, r2.GetTokenPair(), err, qb, qd)
						}
					} else if err == nil {
						rt.Fatalf("C17 violated: Query/TokenPairByL2Denom(bridge %d, %s) = %v although bridge %d never saw a deposit of %s", qb, l2, r2.GetTokenPair(), qb, qd)
					}
				}
				tp, err := e.Q.TokenPairs(e.Ctx, &ophosttypes.QueryTokenPairsRequest{BridgeId: qb})
				if err != nil || len(tp.TokenPairs) != want {
					rt.Fatalf("C17 violated: Query/TokenPairs(bridge %d) lists %d pairs (err %v), the bridge has seen %d denoms", qb, len(tp.GetTokenPairs()), err, want)
				}
				for _, pr := range tp.TokenPairs {
					if pr.L2Denom != ref.L2Denom(qb, pr.L1Denom) {
						rt.Fatalf("C17 violated: Query/TokenPairs(bridge %d) pairs %s with %s, the derivation gives %s", qb, pr.L1Denom, pr.L2Denom, ref.L2Denom(qb, pr.L1Denom))
					}
				}
			}
		})
		if shared {
			c.NonTrivial()
			c.Class("queries/denom-deposited-into-two-bridges")
			c.Shape(fmt.Sprintf("queries/%d/%d", nb, len(seen)))
		}
		c.Done()
	})
}
