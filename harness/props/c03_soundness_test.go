package props

import (
	"bytes"
	"encoding/hex"
	"fmt"
	"math/big"
	"strings"
	"testing"
	"time"

	"cosmossdk.io/math"
	sdk "github.com/cosmos/cosmos-sdk/types"
	"pgregory.net/rapid"

	ophosttypes "github.com/initia-labs/OPinit/x/ophost/types"

	"verifharness/evid"
	"verifharness/henv"
	"verifharness/ref"
)

// c03World: two bridges with two outputs each, in drawn oracle states.
type c03World struct {
	e      *henv.L1
	users  []henv.User
	period time.Duration
	outs   map[uint64][]*mOutput // live outputs per bridge (index-1)
	dead   []*mOutput            // deleted outputs (with their old index and bridge in Tuples[0].Bridge)
	paid   map[string]bool       // "bridge/leafhex"
	log    []string
	// accepted: the claims the chain has paid, as they were sent
	accepted []*ophosttypes.MsgFinalizeTokenWithdrawal
	episodes int
}

func cloneMsg(m *ophosttypes.MsgFinalizeTokenWithdrawal) *ophosttypes.MsgFinalizeTokenWithdrawal {
	c := *m
	c.WithdrawalProofs = make([][]byte, len(m.WithdrawalProofs))
	for i, p := range m.WithdrawalProofs {
		c.WithdrawalProofs[i] = append([]byte{}, p...)
	}
	c.Version = append([]byte{}, m.Version...)
	c.StorageRoot = append([]byte{}, m.StorageRoot...)
	c.LastBlockHash = append([]byte{}, m.LastBlockHash...)
	return &c
}

// refVerdict is the reference verifier, written from the statement of C03 (and the
// documented basic validation of the message); it reads the chain only through queries.
func (w *c03World) refVerdict(m *ophosttypes.MsgFinalizeTokenWithdrawal) (accept bool, reason string) {
	if _, err := sdk.AccAddressFromBech32(m.Sender); err != nil {
		return false, "validate:sender"
	}
	if len(m.From) == 0 {
		return false, "validate:from"
	}
	if _, err := sdk.AccAddressFromBech32(m.To); err != nil {
		return false, "validate:to"
	}
	if !m.Amount.IsValid() || m.Amount.IsZero() {
		return false, "validate:amount"
	}
	if m.Sequence == 0 || m.BridgeId == 0 || m.OutputIndex == 0 {
		return false, "validate:zero"
	}
	for _, p := range m.WithdrawalProofs {
		if len(p) != 32 {
			return false, "validate:prooflen"
		}
	}
	if len(m.Version) != 1 || len(m.StorageRoot) != 32 || len(m.LastBlockHash) != 32 {
		return false, "validate:len"
	}
	if !m.Amount.Amount.IsUint64() {
		return false, "amount-above-64-bits"
	}
	res, err := w.e.Q.OutputProposal(w.e.Ctx, &ophosttypes.QueryOutputProposalRequest{BridgeId: m.BridgeId, OutputIndex: m.OutputIndex})
	if err != nil {
		return false, "no-such-output"
	}
	br, err := w.e.Q.Bridge(w.e.Ctx, &ophosttypes.QueryBridgeRequest{BridgeId: m.BridgeId})
	if err != nil {
		return false, "no-such-bridge"
	}
	if w.e.Ctx.BlockTime().Before(res.OutputProposal.L1BlockTime.Add(br.BridgeConfig.FinalizationPeriod)) {
		return false, "not-final"
	}
	want := ref.OutputRoot(m.Version[0], m.StorageRoot, m.LastBlockHash)
	if !bytes.Equal(res.OutputProposal.OutputRoot, want[:]) {
		return false, "output-root-mismatch"
	}
	leaf := ref.Leaf(m.BridgeId, m.Sequence, m.From, m.To, m.Amount.Denom, m.Amount.Amount.Uint64())
	if w.paid[fmt.Sprintf("%d/%x", m.BridgeId, leaf)] {
		return false, "already-paid"
	}
	root := ref.RootFromProof(leaf, m.WithdrawalProofs)
	if !bytes.Equal(root[:], m.StorageRoot) {
		return false, "proof-does-not-reach-storage-root"
	}
	if w.e.Balance(ophosttypes.BridgeAddress(m.BridgeId), m.Amount.Denom).LT(m.Amount.Amount) {
		return false, "escrow-short"
	}
	return true, "ok"
}

func newC03World(rt *rapid.T) *c03World {
	e := henv.NewL1(henv.L1Options{NoHook: true})
	w := &c03World{e: e, period: 10 * time.Second, outs: map[uint64][]*mOutput{}, paid: map[string]bool{}}
	for i := 0; i < 4; i++ {
		w.users = append(w.users, henv.MakeUser(fmt.Sprintf("c03-%d", i)))
	}
	// bridges 1 and 2 have outputs; bridge 3 exists and holds funds but has no output at all
	for b := uint64(1); b <= 3; b++ {
		if r := e.Deliver(ophosttypes.NewMsgCreateBridge(w.users[0].Str, henv.DefaultBridgeConfig(w.users[0].Str, w.users[1].Str, w.period))); !r.OK() {
			panic(r.Err)
		}
		// rich escrows (well above 2^64): a claim is then decided by the proof, never by missing funds
		e.Fund(ophosttypes.BridgeAddress(b), sdk.NewCoin("uinit", c03Rich), sdk.NewCoin("uusdc", c03Rich))
		// both tokens have been deposited before: the bridge knows their L2 names
		e.Fund(w.users[0].Addr, coinOf("uinit", 10), coinOf("uusdc", 10))
		for _, d := range []string{"uinit", "uusdc"} {
			if r := e.Deliver(ophosttypes.NewMsgInitiateTokenDeposit(w.users[0].Str, b, "l2-recipient", coinOf(d, 1), nil)); !r.OK() {
				panic(r.Err)
			}
		}
	}
	sizeGen := rapid.OneOf(rapid.IntRange(1, 8), rapid.IntRange(1, 40))
	seq := map[uint64]uint64{1: 1, 2: 1}
	mk := func(b uint64, n int) []wd {
		var ts []wd
		for i := 0; i < n; i++ {
			from := "l2-user"
			if rapid.IntRange(0, 2).Draw(rt, "fromkind") == 0 {
				from = w.users[rapid.IntRange(0, 3).Draw(rt, "fromuser")].Str // a string that is also a valid L1 address
			}
			lb := b
			if b == 2 && rapid.IntRange(0, 5).Draw(rt, "leafForBridge3") == 0 {
				lb = 3 // the proposer of bridge 2 commits a leaf that names bridge 3
			}
			to := w.users[rapid.IntRange(0, 3).Draw(rt, "to")].Str
			if rapid.IntRange(0, 7).Draw(rt, "longSender") == 0 {
				// L2 sender strings are free-form: 128, 129 or 300 characters
				from = strings.Repeat("s", rapid.SampledFrom([]int{127, 128, 129, 300}).Draw(rt, "senderLen"))
			}
			if rapid.IntRange(0, 7).Draw(rt, "hexSender") == 0 {
				// an EVM-style L2: senders are 0x + 40 hex digits, in whatever case the L2 wrote them
				from = "0x" + rapid.StringMatching("[0-9a-fA-F]{40}").Draw(rt, "hexFrom")
			}
			if rapid.IntRange(0, 5).Draw(rt, "selfWithdrawal") == 0 {
				from = to // the L2 sender withdraws to the same address string on L1
			}
			ts = append(ts, wd{Bridge: lb, Seq: seq[b], From: from, To: to,
				Denom: rapid.SampledFrom([]string{"uinit", "uusdc"}).Draw(rt, "denom"), Amount: uint64(rapid.IntRange(1, 1000).Draw(rt, "amt"))})
			seq[b]++
		}
		return ts
	}
	propose := func(b uint64, o *mOutput) {
		idx := uint64(len(w.outs[b]) + 1)
		r := e.Deliver(ophosttypes.NewMsgProposeOutput(w.users[0].Str, b, idx, idx*100+uint64(len(w.dead)), o.Root[:]))
		if !r.OK() {
			panic(r.Err)
		}
		o.Index, o.At = idx, e.Ctx.BlockTime()
		w.outs[b] = append(w.outs[b], o)
	}
	// bridge 1: output 1, output 2; bridge 2: output 1 (own tree or the same root as bridge 1's output 1)
	o11 := buildOutput(mk(1, sizeGen.Draw(rt, "n11")), byte(rapid.IntRange(0, 1).Draw(rt, "v")), rapid.SliceOfN(rapid.Byte(), 32, 32).Draw(rt, "bh"))
	propose(1, o11)
	if rapid.Bool().Draw(rt, "sameRootOnOtherBridge") {
		cp := *o11
		propose(2, &cp)
		w.log = append(w.log, "bridge 2 output 1 carries the same root as bridge 1 output 1")
	} else {
		propose(2, buildOutput(mk(2, sizeGen.Draw(rt, "n21")), 0, rapid.SliceOfN(rapid.Byte(), 32, 32).Draw(rt, "bh2")))
	}
	e.Advance(time.Duration(rapid.IntRange(0, 12).Draw(rt, "gap")) * time.Second)
	var o12 *mOutput
	if rapid.IntRange(0, 3).Draw(rt, "deep") == 0 {
		// a tree known through one leaf and its sibling path: depths around the 64 levels a u64 sequence space can fill, and beyond
		depth := rapid.SampledFrom([]int{0, 1, 17, 31, 32, 33, 62, 63, 64, 65, 66, 80, 130}).Draw(rt, "depth")
		sibs := make([][]byte, depth)
		for i := range sibs {
			sibs[i] = rapid.SliceOfN(rapid.Byte(), 32, 32).Draw(rt, "sib")
		}
		o12 = buildPathOutput(mk(1, 1)[0], sibs, byte(rapid.IntRange(0, 1).Draw(rt, "v2")), rapid.SliceOfN(rapid.Byte(), 32, 32).Draw(rt, "bh3"))
		w.log = append(w.log, fmt.Sprintf("bridge 1 output 2 is a tree of depth %d known through one path", depth))
	} else {
		o12 = buildOutput(append(mk(1, sizeGen.Draw(rt, "n12")), o11.Tuples[0]), byte(rapid.IntRange(0, 1).Draw(rt, "v2")), rapid.SliceOfN(rapid.Byte(), 32, 32).Draw(rt, "bh3"))
	}
	if o12.Tree != nil && rapid.IntRange(0, 5).Draw(rt, "emptyTree") == 0 {
		// the L2 interval of output 2 contained no withdrawal: the proposer commits an all-zero storage root (the
		// withdrawals below are then committed by nothing, every claim against this output is invalid)
		o12.Storage = [32]byte{}
		o12.Root = ref.OutputRoot(o12.Version, o12.Storage[:], o12.BlockHash)
		w.log = append(w.log, "bridge 1 output 2 commits an empty withdrawal tree (zero storage root)")
	}
	propose(1, o12)
	switch st := rapid.SampledFrom([]string{"final", "final", "mixed", "notfinal", "deleted", "reproposed"}).Draw(rt, "state"); st {
	case "final":
		e.Advance(w.period + time.Duration(rapid.IntRange(0, 5).Draw(rt, "slack"))*time.Second)
	case "mixed":
		// output 1 final, output 2 maybe not
		e.Advance(w.period - time.Duration(rapid.IntRange(1, 5).Draw(rt, "short"))*time.Second)
	case "notfinal":
		e.Advance(time.Duration(rapid.IntRange(0, 5).Draw(rt, "early")) * time.Second)
	case "deleted", "reproposed":
		if r := e.Deliver(ophosttypes.NewMsgDeleteOutput(w.users[1].Str, 1, 2)); r.OK() {
			w.dead = append(w.dead, o12)
			w.outs[1] = w.outs[1][:1]
			if st == "reproposed" {
				propose(1, buildOutput(mk(1, sizeGen.Draw(rt, "n12b")), 1, rapid.SliceOfN(rapid.Byte(), 32, 32).Draw(rt, "bh4")))
			}
		}
		e.Advance(w.period + time.Second)
		w.log = append(w.log, "state "+st)
	}
	return w
}

var c03Rich, _ = math.NewIntFromString("1180591620717411303424") // 2^70

var c03Kinds = []string{"none", "flip-storage", "flip-blockhash", "flip-proof", "version", "seq", "amount", "amount+2^64", "bridge", "index", "swap-from-to",
	"other-storage", "other-blockhash", "drop-last", "drop-first", "dup-item", "swap-items", "extend", "empty-proof", "cut-to-inner", "other-pos-proof",
	"from-case", "from-nul", "move-byte", "denom", "to-other-user", "dead-output", "inner-as-root", "to-uppercase",
	"lengthen-blockhash", "lengthen-storage", "shorten-blockhash", "lengthen-version", "extend-many", "denom-l2-twin", "hex-item", "blank-from", "blank-to", "from-tail", "to-tail", "reverse-proof", "empty-version", "from-one-letter-case", "malformed-item", "malformed-item"}

// perturb applies one perturbation kind in place; returns false if it does not apply.
func (w *c03World) perturb(rt *rapid.T, kind string, m *ophosttypes.MsgFinalizeTokenWithdrawal, o *mOutput, pos int) bool {
	flip := func(b []byte) bool {
		if len(b) == 0 {
			return false
		}
		i := rapid.IntRange(0, len(b)*8-1).Draw(rt, "bit")
		b[i/8] ^= 1 << (i % 8)
		return true
	}
	switch kind {
	case "none":
		return true
	case "flip-storage":
		return flip(m.StorageRoot)
	case "flip-blockhash":
		return flip(m.LastBlockHash)
	case "flip-proof":
		if len(m.WithdrawalProofs) == 0 {
			return false
		}
		return flip(m.WithdrawalProofs[rapid.IntRange(0, len(m.WithdrawalProofs)-1).Draw(rt, "item")])
	case "empty-version":
		m.Version = []byte{} // the version byte left out altogether
	case "version":
		if len(m.Version) == 0 {
			return false
		}
		m.Version[0] ^= byte(1 << rapid.IntRange(0, 7).Draw(rt, "vbit"))
	case "seq":
		m.Sequence += uint64(rapid.SampledFrom([]int64{1, -1, 256}).Draw(rt, "dseq"))
	case "amount":
		m.Amount.Amount = m.Amount.Amount.AddRaw(rapid.SampledFrom([]int64{1, -1, 1000}).Draw(rt, "damt"))
		if !m.Amount.Amount.IsPositive() {
			m.Amount.Amount = math.NewInt(2)
		}
	case "amount+2^64":
		two64, _ := math.NewIntFromString("18446744073709551616")
		m.Amount.Amount = m.Amount.Amount.Add(two64)
	case "bridge":
		m.BridgeId = 3 - m.BridgeId
	case "index":
		m.OutputIndex = uint64(rapid.SampledFrom([]int{1, 2, 3}).Draw(rt, "idx"))
	case "swap-from-to":
		m.From, m.To = m.To, m.From
	case "other-storage", "other-blockhash":
		var other *mOutput
		for _, os := range w.outs {
			for _, x := range os {
				if x != o && x.Root != o.Root {
					other = x
				}
			}
		}
		if other == nil {
			return false
		}
		if kind == "other-storage" {
			m.StorageRoot = append([]byte{}, other.Storage[:]...)
		} else {
			m.LastBlockHash = append([]byte{}, other.BlockHash...)
		}
	case "drop-last":
		if len(m.WithdrawalProofs) == 0 {
			return false
		}
		m.WithdrawalProofs = m.WithdrawalProofs[:len(m.WithdrawalProofs)-1]
	case "drop-first":
		if len(m.WithdrawalProofs) == 0 {
			return false
		}
		m.WithdrawalProofs = m.WithdrawalProofs[1:]
	case "dup-item":
		if len(m.WithdrawalProofs) == 0 {
			return false
		}
		i := rapid.IntRange(0, len(m.WithdrawalProofs)-1).Draw(rt, "dup")
		m.WithdrawalProofs = append(m.WithdrawalProofs[:i+1], m.WithdrawalProofs[i:]...)
	case "swap-items":
		if len(m.WithdrawalProofs) < 2 {
			return false
		}
		i := rapid.IntRange(0, len(m.WithdrawalProofs)-2).Draw(rt, "swap")
		m.WithdrawalProofs[i], m.WithdrawalProofs[i+1] = m.WithdrawalProofs[i+1], m.WithdrawalProofs[i]
	case "extend":
		m.WithdrawalProofs = append(m.WithdrawalProofs, rapid.SampledFrom([][]byte{make([]byte, 32), bytes.Repeat([]byte{0xff}, 32), append([]byte{}, m.StorageRoot...)}).Draw(rt, "ext"))
	case "lengthen-blockhash":
		// the committed 32 bytes followed by more bytes
		m.LastBlockHash = append(m.LastBlockHash, rapid.SliceOfN(rapid.Byte(), 1, 40).Draw(rt, "tail")...)
	case "lengthen-storage":
		m.StorageRoot = append(m.StorageRoot, rapid.SliceOfN(rapid.Byte(), 1, 40).Draw(rt, "tail")...)
	case "shorten-blockhash":
		if len(m.LastBlockHash) == 0 {
			return false
		}
		m.LastBlockHash = m.LastBlockHash[:rapid.IntRange(0, len(m.LastBlockHash)-1).Draw(rt, "keep")]
	case "lengthen-version":
		m.Version = append(m.Version, byte(rapid.IntRange(0, 255).Draw(rt, "vtail")))
	case "extend-many":
		// make the path longer than 64 items whatever its length was
		n := rapid.IntRange(1, 70).Draw(rt, "nmore")
		for i := 0; i < n; i++ {
			m.WithdrawalProofs = append(m.WithdrawalProofs, rapid.SliceOfN(rapid.Byte(), 32, 32).Draw(rt, "more"))
		}
	case "empty-proof":
		if len(m.WithdrawalProofs) == 0 {
			return false
		}
		m.WithdrawalProofs = nil
	case "cut-to-inner":
		// offer the proof suffix that would fit an inner node instead of the leaf
		if len(m.WithdrawalProofs) < 2 {
			return false
		}
		m.WithdrawalProofs = m.WithdrawalProofs[rapid.IntRange(1, len(m.WithdrawalProofs)-1).Draw(rt, "cut"):]
	case "other-pos-proof":
		if o.Tree == nil || len(o.Tuples) < 2 {
			return false
		}
		p2 := (pos + 1 + rapid.IntRange(0, len(o.Tuples)-2).Draw(rt, "otherpos")) % len(o.Tuples)
		m.WithdrawalProofs, _ = o.Tree.Proof(p2)
	case "from-case":
		if strings.ToUpper(m.From) == m.From {
			return false
		}
		m.From = strings.ToUpper(m.From)
	case "malformed-item":
		// a proof of one item that is not 32 bytes long, offered with the storage root the output really has
		m.WithdrawalProofs = [][]byte{rapid.SliceOfN(rapid.Byte(), 0, 31).Draw(rt, "badItem")}
		m.StorageRoot = append([]byte{}, o.Storage[:]...)
	case "from-one-letter-case":
		// one letter of the sender in the other case (past a 0x prefix, so that a hex sender stays a hex sender)
		var idx []int
		for i, ch := range []byte(m.From) {
			if i >= 2 && ((ch >= 'a' && ch <= 'z') || (ch >= 'A' && ch <= 'Z')) {
				idx = append(idx, i)
			}
		}
		if len(idx) == 0 {
			return false
		}
		bz := []byte(m.From)
		bz[idx[rapid.IntRange(0, len(idx)-1).Draw(rt, "letter")]] ^= 0x20
		m.From = string(bz)
	case "from-nul":
		m.From += "\x00"
	case "move-byte":
		if len(m.From) == 0 {
			return false
		}
		m.To = m.From[len(m.From)-1:] + m.To
		m.From = m.From[:len(m.From)-1]
	case "denom":
		if m.Amount.Denom == "uinit" {
			m.Amount.Denom = "uusdc"
		} else {
			m.Amount.Denom = "uinit"
		}
	case "hex-item":
		// one proof element replaced by its 64-character hexadecimal text
		if len(m.WithdrawalProofs) == 0 {
			return false
		}
		i := rapid.IntRange(0, len(m.WithdrawalProofs)-1).Draw(rt, "hexitem")
		m.WithdrawalProofs[i] = []byte(hex.EncodeToString(m.WithdrawalProofs[i]))
	case "from-tail":
		// something appended to, or the last character changed in, the sender string
		if len(m.From) > 0 && rapid.Bool().Draw(rt, "changeLast") {
			m.From = m.From[:len(m.From)-1] + "~"
		} else {
			m.From += "00"
		}
	case "to-tail":
		m.To += "00"
	case "reverse-proof":
		if len(m.WithdrawalProofs) < 2 {
			return false
		}
		for i, j := 0, len(m.WithdrawalProofs)-1; i < j; i, j = i+1, j-1 {
			m.WithdrawalProofs[i], m.WithdrawalProofs[j] = m.WithdrawalProofs[j], m.WithdrawalProofs[i]
		}
	case "blank-from":
		m.From = ""
	case "blank-to":
		m.To = ""
	case "denom-l2-twin":
		// the name the same token has on L2 (the bridge has a registered token pair for it)
		m.Amount.Denom = ref.L2Denom(m.BridgeId, m.Amount.Denom)
	case "to-uppercase":
		if strings.ToUpper(m.To) == m.To {
			return false
		}
		m.To = strings.ToUpper(m.To) // a valid spelling of the same account, but not the committed string
	case "to-other-user":
		for _, u := range w.users {
			if u.Str != m.To {
				m.To = u.Str
				break
			}
		}
	case "dead-output":
		if len(w.dead) == 0 {
			return false
		}
		d := w.dead[0]
		p := rapid.IntRange(0, len(d.Tuples)-1).Draw(rt, "deadpos")
		*m = *claimMsg(m.Sender, d.Tuples[p], d, d.Index, p)
	case "inner-as-root":
		// claim the subtree: storage root replaced by an inner node that the proof prefix reaches
		if len(m.WithdrawalProofs) < 2 || !m.Amount.Amount.IsUint64() {
			return false
		}
		k := rapid.IntRange(1, len(m.WithdrawalProofs)-1).Draw(rt, "prefix")
		leaf := ref.Leaf(m.BridgeId, m.Sequence, m.From, m.To, m.Amount.Denom, m.Amount.Amount.Uint64())
		inner := ref.RootFromProof(leaf, m.WithdrawalProofs[:k])
		m.WithdrawalProofs = m.WithdrawalProofs[:k]
		m.StorageRoot = inner[:]
	}
	return true
}

func (w *c03World) tryClaim(m *ophosttypes.MsgFinalizeTokenWithdrawal) (handlerOK bool, refOK bool, reason string, err error) {
	refOK, reason = w.refVerdict(m)
	before := w.e.Digest()
	r := w.e.Deliver(cloneMsg(m))
	if !r.OK() && before != w.e.Digest() {
		return false, refOK, reason, fmt.Errorf("rejected claim changed state")
	}
	if r.OK() && m.Amount.Amount.IsUint64() {
		leaf := ref.Leaf(m.BridgeId, m.Sequence, m.From, m.To, m.Amount.Denom, m.Amount.Amount.Uint64())
		w.paid[fmt.Sprintf("%d/%x", m.BridgeId, leaf)] = true
		w.accepted = append(w.accepted, cloneMsg(m))
	}
	if r.OK() != refOK {
		return r.OK(), refOK, reason, fmt.Errorf("handler accepted=%v, reference verifier says %v (%s); handler error: %v", r.OK(), refOK, reason, r.Err)
	}
	return r.OK(), refOK, reason, nil
}

func renderClaim(m *ophosttypes.MsgFinalizeTokenWithdrawal) string {
	return fmt.Sprintf("claim{bridge=%d index=%d seq=%d from=%q to=%q amount=%s version=%x storage=%x.. blockhash=%x.. proof=%d items}",
		m.BridgeId, m.OutputIndex, m.Sequence, m.From, m.To, m.Amount, m.Version, m.StorageRoot[:minInt(4, len(m.StorageRoot))], m.LastBlockHash[:minInt(4, len(m.LastBlockHash))], len(m.WithdrawalProofs))
}

func minInt(a, b int) int {
	if a < b {
		return a
	}
	return b
}

func TestC03Rapid(t *testing.T) {
	rec := evid.For("C03")
	runRapid(t, 2000, 20000, func(rt *rapid.T) {
		w := newC03World(rt)
		nclaims := rapid.IntRange(4, 12).Draw(rt, "claims")
		for ci := 0; ci < nclaims; ci++ {
			c := rec.Begin()
			b := uint64(rapid.IntRange(1, 2).Draw(rt, "bridge"))
			o := w.outs[b][rapid.IntRange(0, len(w.outs[b])-1).Draw(rt, "out")]
			pos := rapid.IntRange(0, len(o.Tuples)-1).Draw(rt, "pos")
			tu := o.Tuples[pos]
			base := claimMsg(w.users[3].Str, tu, o, o.Index, pos)
			if tu.Bridge == 3 {
				// a leaf that names bridge 3, committed under bridge 2: the claim names bridge 3, which has no outputs
				c.Class("claim-naming-a-bridge-without-outputs")
			} else if tu.Bridge != b {
				// the copied root on bridge 2: the honest claim names bridge 2 but the leaves commit to bridge 1
				base.BridgeId = b
			}
			if rapid.IntRange(0, 5).Draw(rt, "challengeEpisode") == 0 {
				// ordinary life between claims: the proposer submits a further output, the challenger deletes it while
				// it is pending. What has been paid stays paid, what is stored stays as it is.
				eb := uint64(rapid.IntRange(1, 2).Draw(rt, "episodeBridge"))
				idx := uint64(len(w.outs[eb]) + 1)
				w.episodes++
				if r := w.e.Deliver(ophosttypes.NewMsgProposeOutput(w.users[0].Str, eb, idx, idx*100+50+uint64(w.episodes), rapid.SliceOfN(rapid.Byte(), 32, 32).Draw(rt, "episodeRoot"))); r.OK() {
					if r := w.e.Deliver(ophosttypes.NewMsgDeleteOutput(w.users[1].Str, eb, idx)); !r.OK() {
						rt.Fatalf("harness: the challenger could not delete the pending output %d of bridge %d: %v", idx, eb, r.Err)
					}
					w.log = append(w.log, fmt.Sprintf("bridge %d: output %d proposed and deleted again", eb, idx))
					c.Class("output-proposed-and-deleted-between-claims")
				}
			}
			m := cloneMsg(base)
			k1 := rapid.SampledFrom(c03Kinds).Draw(rt, "kind")
			k2 := "none"
			if len(w.accepted) > 0 && rapid.IntRange(0, 5).Draw(rt, "replay") == 0 {
				// a claim the chain has already paid, sent again byte for byte
				m = cloneMsg(w.accepted[rapid.IntRange(0, len(w.accepted)-1).Draw(rt, "replayOf")])
				base = cloneMsg(m)
				k1 = "replay-of-a-paid-claim"
			} else {
				if rapid.IntRange(0, 5).Draw(rt, "two") == 0 {
					k2 = rapid.SampledFrom(c03Kinds).Draw(rt, "kind2")
				}
				if !w.perturb(rt, k1, m, o, pos) {
					k1 = "none"
				}
				if !w.perturb(rt, k2, m, o, pos) {
					k2 = "none"
				}
			}
			baseOK, _ := w.refVerdict(base)
			hOK, rOK, reason, err := w.tryClaim(m)
			w.log = append(w.log, fmt.Sprintf("%s + %s/%s -> handler=%v ref=%v (%s)", renderClaim(m), k1, k2, hOK, rOK, reason))
			if err != nil {
				rt.Fatalf("C03 violated: %v\n  base claim (reference accepts: %v): %s\n  perturbation %s/%s\n  offered: %s\nlog:\n%s", err, baseOK, renderClaim(base), k1, k2, renderClaim(m), strings.Join(w.log, "\n"))
			}
			c.Class("kind/" + k1)
			c.Class("verdict/" + reason)
			if o.Synth != nil {
				if len(o.Synth) >= 64 {
					c.Class("path-output/depth>=64")
				} else {
					c.Class("path-output/depth<64")
				}
			}
			if rOK {
				c.Class("accepted")
			}
			// non-trivial: a perturbed claim of an otherwise acceptable claim that fails for the proof/root reason alone
			if baseOK && (k1 != "none" || k2 != "none") && (reason == "proof-does-not-reach-storage-root" || reason == "output-root-mismatch") {
				c.NonTrivial()
				c.Shape(fmt.Sprintf("%s/%s/%s/n=%d/pos=%d", k1, k2, reason, len(o.Tuples), pos))
			}
			mm := m
			c.Sample(func() interface{} {
				return map[string]interface{}{"offered": renderClaim(mm), "perturbation": k1 + "/" + k2, "reference_verdict": reason, "tree_size": len(o.Tuples), "position": pos}
			})
			c.Done()
		}
	})
}

// TestC03Positions: every position of every tree size up to a bound: the valid claim is
// accepted, and the same claim with the proof of the neighbouring position is decided by the
// reference (bounded exhaustive).
func TestC03Positions(t *testing.T) {
	rec := evid.For("C03")
	maxN := 17
	if thorough() {
		maxN = 40
	}
	caseNo := 0
	for n := 1; n <= maxN; n++ {
		caseNo++
		if !enumShard(caseNo) {
			continue
		}
		e := henv.NewL1(henv.L1Options{NoHook: true})
		w := &c03World{e: e, period: 10 * time.Second, outs: map[uint64][]*mOutput{}, paid: map[string]bool{}}
		for i := 0; i < 4; i++ {
			w.users = append(w.users, henv.MakeUser(fmt.Sprintf("c03-%d", i)))
		}
		if r := e.Deliver(ophosttypes.NewMsgCreateBridge(w.users[0].Str, henv.DefaultBridgeConfig(w.users[0].Str, w.users[1].Str, w.period))); !r.OK() {
			t.Fatal(r.Err)
		}
		e.Fund(ophosttypes.BridgeAddress(1), sdk.NewCoin("uinit", c03Rich))
		var ts []wd
		for i := 0; i < n; i++ {
			ts = append(ts, wd{Bridge: 1, Seq: uint64(i + 1), From: "l2", To: w.users[2].Str, Denom: "uinit", Amount: uint64(i + 1)})
		}
		o := buildOutput(ts, 1, bytes.Repeat([]byte{7}, 32))
		if r := e.Deliver(ophosttypes.NewMsgProposeOutput(w.users[0].Str, 1, 1, 10, o.Root[:])); !r.OK() {
			t.Fatal(r.Err)
		}
		o.Index, o.At = 1, e.Ctx.BlockTime()
		w.outs[1] = []*mOutput{o}
		e.Advance(w.period)
		for pos := 0; pos < n; pos++ {
			id := fmt.Sprintf("n=%d/pos=%d", n, pos)
			if rc := replayCase(); rc != "" && rc != id {
				continue
			}
			c := rec.Begin()
			c.Class("positions")
			// neighbour's proof first (must not pay), then the honest claim (must pay)
			if n > 1 {
				m := claimMsg(w.users[3].Str, ts[pos], o, 1, pos)
				m.WithdrawalProofs, _ = o.Tree.Proof((pos + 1) % n)
				if _, _, reason, err := w.tryClaim(m); err != nil {
					caseFail(t, id, "neighbour proof: %v", err)
				} else if reason == "proof-does-not-reach-storage-root" {
					c.NonTrivial()
					c.Shape(id)
				}
			}
			m := claimMsg(w.users[3].Str, ts[pos], o, 1, pos)
			ok, _, _, err := w.tryClaim(m)
			if err != nil || !ok {
				caseFail(t, id, "honest claim: accepted=%v err=%v", ok, err)
			}
			c.Done()
		}
	}
	rec.ExhaustiveSubspace(fmt.Sprintf("every leaf position of every tree size 1..%d: honest claim accepted, neighbour's proof decided by the reference verifier", maxN))
}

// TestC03BitFlips: every single-bit flip of every byte field of one valid claim (8-leaf tree)
// and of its integer fields must be rejected without effect (bounded exhaustive).
func TestC03BitFlips(t *testing.T) {
	if cfgShard != 0 {
		return
	}
	rec := evid.For("C03")
	e := henv.NewL1(henv.L1Options{NoHook: true})
	w := &c03World{e: e, period: 10 * time.Second, outs: map[uint64][]*mOutput{}, paid: map[string]bool{}}
	for i := 0; i < 4; i++ {
		w.users = append(w.users, henv.MakeUser(fmt.Sprintf("c03-%d", i)))
	}
	for b := 0; b < 2; b++ {
		if r := e.Deliver(ophosttypes.NewMsgCreateBridge(w.users[0].Str, henv.DefaultBridgeConfig(w.users[0].Str, w.users[1].Str, w.period))); !r.OK() {
			t.Fatal(r.Err)
		}
	}
	e.Fund(ophosttypes.BridgeAddress(1), sdk.NewCoin("uinit", c03Rich))
	e.Fund(ophosttypes.BridgeAddress(2), sdk.NewCoin("uinit", c03Rich))
	var ts []wd
	for i := 0; i < 8; i++ {
		ts = append(ts, wd{Bridge: 1, Seq: uint64(i + 1), From: w.users[1].Str, To: w.users[2].Str, Denom: "uinit", Amount: uint64(100 + i)})
	}
	o := buildOutput(ts, 1, bytes.Repeat([]byte{9}, 32))
	for b := uint64(1); b <= 2; b++ {
		if r := e.Deliver(ophosttypes.NewMsgProposeOutput(w.users[0].Str, b, 1, 10, o.Root[:])); !r.OK() {
			t.Fatal(r.Err)
		}
	}
	o.Index, o.At = 1, e.Ctx.BlockTime()
	e.Advance(w.period)
	base := claimMsg(w.users[3].Str, ts[5], o, 1, 5)
	if ok, _ := w.refVerdict(base); !ok {
		t.Fatal("base claim must be acceptable")
	}
	n := 0
	try := func(id string, m *ophosttypes.MsgFinalizeTokenWithdrawal) {
		if rc := replayCase(); rc != "" && rc != id {
			return
		}
		c := rec.Begin()
		c.Class("bitflip")
		hOK, _, reason, err := w.tryClaim(m)
		if err != nil {
			caseFail(t, id, "%v: %s", err, renderClaim(m))
		}
		if hOK {
			caseFail(t, id, "a single-bit change of a valid claim was paid: %s", renderClaim(m))
		}
		if reason == "proof-does-not-reach-storage-root" || reason == "output-root-mismatch" {
			c.NonTrivial()
			c.Shape(id)
		}
		n++
		c.Done()
	}
	flipBytes := func(name string, get func(m *ophosttypes.MsgFinalizeTokenWithdrawal) []byte) {
		for bit := 0; bit < len(get(base))*8; bit++ {
			m := cloneMsg(base)
			get(m)[bit/8] ^= 1 << (bit % 8)
			try(fmt.Sprintf("%s/bit%d", name, bit), m)
		}
	}
	flipBytes("storage", func(m *ophosttypes.MsgFinalizeTokenWithdrawal) []byte { return m.StorageRoot })
	flipBytes("blockhash", func(m *ophosttypes.MsgFinalizeTokenWithdrawal) []byte { return m.LastBlockHash })
	flipBytes("version", func(m *ophosttypes.MsgFinalizeTokenWithdrawal) []byte { return m.Version })
	for i := range base.WithdrawalProofs {
		i := i
		flipBytes(fmt.Sprintf("proof%d", i), func(m *ophosttypes.MsgFinalizeTokenWithdrawal) []byte { return m.WithdrawalProofs[i] })
	}
	for bit := 0; bit < 64; bit++ {
		m := cloneMsg(base)
		m.Sequence ^= 1 << bit
		try(fmt.Sprintf("seq/bit%d", bit), m)
		m = cloneMsg(base)
		m.BridgeId ^= 1 << bit
		try(fmt.Sprintf("bridge/bit%d", bit), m)
		m = cloneMsg(base)
		m.OutputIndex ^= 1 << bit
		try(fmt.Sprintf("index/bit%d", bit), m)
		m = cloneMsg(base)
		m.Amount.Amount = math.NewIntFromUint64(base.Amount.Amount.Uint64() ^ (1 << bit))
		try(fmt.Sprintf("amount/bit%d", bit), m)
	}
	// the amount field is wider than its 64-bit commitment: bits above 63 as well
	for bit := uint(64); bit < 72; bit++ {
		m := cloneMsg(base)
		m.Amount.Amount = base.Amount.Amount.Add(math.NewIntFromBigInt(new(big.Int).Lsh(big.NewInt(1), bit)))
		try(fmt.Sprintf("amount/bit%d", bit), m)
	}
	for _, f := range []string{"from", "to", "denom"} {
		var s string
		switch f {
		case "from":
			s = base.From
		case "to":
			s = base.To
		case "denom":
			s = base.Amount.Denom
		}
		for bit := 0; bit < len(s)*8; bit++ {
			bs := []byte(s)
			bs[bit/8] ^= 1 << (bit % 8)
			m := cloneMsg(base)
			switch f {
			case "from":
				m.From = string(bs)
			case "to":
				m.To = string(bs)
			case "denom":
				m.Amount.Denom = string(bs)
			}
			try(fmt.Sprintf("%s/bit%d", f, bit), m)
		}
	}
	// and the untouched claim is still payable afterwards
	if ok, _, _, err := w.tryClaim(base); err != nil || !ok {
		t.Fatalf("base claim after %d rejected variants: ok=%v err=%v", n, ok, err)
	}
	rec.ExhaustiveSubspace(fmt.Sprintf("all %d single-bit flips of one valid claim's byte and integer fields (8-leaf tree, same root also stored on a second bridge)", n))
}
