package props

import (
	"bytes"
	"context"
	"fmt"
	"strings"
	"testing"

	"cosmossdk.io/math"
	"github.com/cosmos/cosmos-sdk/client/tx"
	codectypes "github.com/cosmos/cosmos-sdk/codec/types"
	cryptotypes "github.com/cosmos/cosmos-sdk/crypto/types"
	sdk "github.com/cosmos/cosmos-sdk/types"
	"github.com/cosmos/cosmos-sdk/types/bech32"
	txtypes "github.com/cosmos/cosmos-sdk/types/tx"
	"github.com/cosmos/cosmos-sdk/types/tx/signing"
	authsign "github.com/cosmos/cosmos-sdk/x/auth/signing"
	authtypes "github.com/cosmos/cosmos-sdk/x/auth/types"
	banktypes "github.com/cosmos/cosmos-sdk/x/bank/types"
	"pgregory.net/rapid"

	opchildtypes "github.com/initia-labs/OPinit/x/opchild/types"
	ophosttypes "github.com/initia-labs/OPinit/x/ophost/types"

	"verifharness/evid"
	"verifharness/henv"
)

// signTxGasLimit: when non-zero, transactions built by signTx declare this gas limit (the field is the
// signer's; a hook transaction's signer is whoever wrote the deposit's data on L1).
var signTxGasLimit uint64

// signTx builds and signs a transaction the way a wallet would (SIGN_MODE_DIRECT).
func signTx(l2 *henv.L2, msgs []sdk.Msg, privs []cryptotypes.PrivKey, accNums, accSeqs []uint64, chainID string) []byte {
	txConfig := l2.Enc.TxConfig
	b := txConfig.NewTxBuilder()
	if err := b.SetMsgs(msgs...); err != nil {
		panic(err)
	}
	if signTxGasLimit > 0 {
		b.SetGasLimit(signTxGasLimit) // the signer declares a gas limit of its own in the transaction's fee
	}
	mode, err := authsign.APISignModeToInternal(txConfig.SignModeHandler().DefaultMode())
	if err != nil {
		panic(err)
	}
	var sigs []signing.SignatureV2
	for i, p := range privs {
		sigs = append(sigs, signing.SignatureV2{PubKey: p.PubKey(), Data: &signing.SingleSignatureData{SignMode: mode}, Sequence: accSeqs[i]})
	}
	if err := b.SetSignatures(sigs...); err != nil {
		panic(err)
	}
	sigs = nil
	for i, p := range privs {
		sd := authsign.SignerData{Address: sdk.AccAddress(p.PubKey().Address()).String(), ChainID: chainID, AccountNumber: accNums[i], Sequence: accSeqs[i], PubKey: p.PubKey()}
		s, err := tx.SignWithPrivKey(context.TODO(), mode, sd, b, p, txConfig, accSeqs[i])
		if err != nil {
			panic(err)
		}
		sigs = append(sigs, s)
	}
	if err := b.SetSignatures(sigs...); err != nil {
		panic(err)
	}
	bz, err := txConfig.TxEncoder()(b.GetTx())
	if err != nil {
		panic(err)
	}
	return bz
}

func accInfo(l2 *henv.L2, u henv.User) (num, seq uint64) {
	acc := l2.AK.GetAccount(l2.Ctx, u.Addr)
	if acc == nil {
		return 0, 0
	}
	return acc.GetAccountNumber(), acc.GetSequence()
}

// c07Case is one generated deposit with everything the oracle needs.
type c07Case struct {
	tc         *twoChain
	msg        *opchildtypes.MsgFinalizeTokenDeposit
	toClass    string
	toAddr     sdk.AccAddress // nil when the recipient string is not an L2 address
	blocked    bool
	payload    string
	hookMaxGas uint64
	signer     henv.User
	expect     string // "A", "B", "either"
	// expected hook effects for outcome A when known exactly
	exact     bool
	sent      map[string]math.Int // recipient address -> amount of the l2 denom sent by the hook
	withdrawn math.Int
	desc      string
}

func bech(hrp string, bz []byte) string {
	s, err := bech32.ConvertAndEncode(hrp, bz)
	if err != nil {
		panic(err)
	}
	return s
}

var c07ToClasses = []string{"user", "user", "fresh", "other-prefix", "bad-checksum", "one-byte", "len255", "len256", "blank", "unicode", "long",
	"module-opchild", "module-feecollector", "module-distribution", "module-minter"}

var c07Payloads = []string{"none", "none", "garbage", "truncated", "badsig", "wrongseq", "wrongchain", "ok-send", "ok-send", "ok-multi", "fail-k", "unroutable",
	"multi-signer", "self-withdraw", "self-exec", "gas-hog", "empty-tx", "withdraw-then-fail", "send-and-withdraw", "reentrant-finalize", "withdraw-native", "withdraw-and-send", "bad-signer", "mutated", "handler-runtime-error", "multibyte-error"}

func genC07Case(rt *rapid.T) *c07Case {
	tc := newTwoChain(tcOpts{nExecutors: rapid.IntRange(1, 3).Draw(rt, "executors"), fault: true}) // the relayer below is the first listed one
	l2 := tc.l2
	cs := &c07Case{tc: tc, sent: map[string]math.Int{}, withdrawn: math.ZeroInt()}
	for _, u := range tc.users {
		l2.Fund(u.Addr, coinOf("stake", 1000)) // accounts exist on L2
	}
	big, _ := math.NewIntFromString("73786976294838206464") // 2^66
	tc.l1.Fund(tc.users[0].Addr, sdk.NewCoin("uinit", big))
	exec := tc.executors[0].Str
	nextSeq := uint64(1)
	// pre-state: fresh L2 (module account never instantiated) or an L2 that has processed a deposit
	if rapid.Bool().Draw(rt, "warm") {
		_, p := tc.l1Deposit(tc.users[1], tc.users[2].Str, coinOf("uinit", 500), nil)
		if r := l2.Deliver(relayMsg(exec, p)); !r.OK() {
			rt.Fatalf("warm-up deposit failed: %v", r.Err)
		}
		nextSeq++
		cs.desc += "warm;"
	} else {
		cs.desc += "fresh;"
	}
	if rapid.IntRange(0, 6).Draw(rt, "presetMetadata") == 0 {
		// the bank module already knows display metadata for the L2 denom (e.g. from bank genesis)
		d := tcL2Denom(tc, "uinit")
		presetBankMetadata(rt, l2, d)
		cs.desc += "bank-metadata-preset;"
	}
	cs.hookMaxGas = rapid.SampledFrom([]uint64{opchildtypes.DefaultHookMaxGas, opchildtypes.DefaultHookMaxGas, opchildtypes.DefaultHookMaxGas, 0, 1, 500, 5_000, 50_000}).Draw(rt, "hookMaxGas")
	params, _ := l2.K.GetParams(l2.Ctx)
	params.HookMaxGas = cs.hookMaxGas
	if err := l2.K.SetParams(l2.Ctx, params); err != nil {
		panic(err)
	}

	if rapid.IntRange(0, 3).Draw(rt, "declaredGas") == 0 {
		// the hook transaction states a gas limit of its own, far above what the chain allows hooks
		signTxGasLimit = rapid.SampledFrom([]uint64{1, 60_000, 5_000_000, 1 << 62}).Draw(rt, "declaredGasLimit")
		cs.desc += fmt.Sprintf("hook-tx-declares-gas=%d;", signTxGasLimit)
		defer func() { signTxGasLimit = 0 }()
	}
	// recipient
	cs.toClass = rapid.SampledFrom(c07ToClasses).Draw(rt, "toClass")
	cs.payload = rapid.SampledFrom(c07Payloads).Draw(rt, "payload")
	hookNeedsFunds := cs.payload == "withdraw-and-send" || cs.payload == "withdraw-then-fail" || cs.payload == "send-and-withdraw" || cs.payload == "ok-send" || cs.payload == "ok-multi" || cs.payload == "self-withdraw" || cs.payload == "fail-k" || cs.payload == "gas-hog" || cs.payload == "multi-signer"
	if hookNeedsFunds && rapid.IntRange(0, 9).Draw(rt, "fundedHook") < 7 {
		cs.toClass = "user" // the usual shape: the recipient signs a hook that spends what was just deposited
	}
	hrp := sdk.GetConfig().GetBech32AccountAddrPrefix()
	var to string
	cs.signer = tc.users[rapid.IntRange(0, 3).Draw(rt, "signer")]
	switch cs.toClass {
	case "user":
		to, cs.toAddr = cs.signer.Str, cs.signer.Addr
	case "fresh":
		u := henv.MakeUser("fresh-" + fmt.Sprint(rapid.IntRange(0, 9).Draw(rt, "freshid")))
		to, cs.toAddr = u.Str, u.Addr
	case "other-prefix":
		to = bech("init", tc.users[4].Addr)
	case "bad-checksum":
		s := tc.users[4].Str
		last := s[len(s)-1]
		repl := byte('q')
		if last == 'q' {
			repl = 'p'
		}
		to = s[:len(s)-1] + string(repl)
	case "one-byte":
		cs.toAddr = sdk.AccAddress{byte(rapid.IntRange(1, 255).Draw(rt, "b"))}
		to = bech(hrp, cs.toAddr)
	case "len255":
		cs.toAddr = bytes.Repeat([]byte{7}, 255)
		to = bech(hrp, cs.toAddr)
	case "len256":
		to = bech(hrp, bytes.Repeat([]byte{7}, 256))
	case "blank":
		to = rapid.SampledFrom([]string{" ", "\t", "  \n"}).Draw(rt, "blank")
	case "unicode":
		to = "受取人-" + rapid.StringN(1, 10, 40).Draw(rt, "uni")
	case "long":
		to = strings.Repeat("a", rapid.IntRange(300, 2000).Draw(rt, "longlen"))
	case "module-opchild":
		cs.toAddr = authtypes.NewModuleAddress(opchildtypes.ModuleName)
		to, cs.blocked = cs.toAddr.String(), true
	case "module-feecollector":
		cs.toAddr = authtypes.NewModuleAddress(authtypes.FeeCollectorName)
		to, cs.blocked = cs.toAddr.String(), true
	case "module-distribution":
		cs.toAddr = authtypes.NewModuleAddress("distribution")
		to, cs.blocked = cs.toAddr.String(), true
	case "module-minter":
		cs.toAddr = authtypes.NewModuleAddress(authtypes.Minter)
		to, cs.blocked = cs.toAddr.String(), true
	}
	amtS := rapid.SampledFrom([]string{"0", "1", "1000", "1000", "250000", "9223372036854775808", "18446744073709551615"}).Draw(rt, "amount")
	amt, _ := math.NewIntFromString(amtS)
	if hookNeedsFunds && cs.toClass == "user" && amt.IsZero() {
		amt = math.NewInt(1000)
	}
	sender := tc.users[0]

	// payload
	l2denom := tcL2Denom(tc, "uinit")
	num, seq := accInfo(l2, cs.signer)
	other := tc.users[4]
	// what the signer can spend of the bridged denom once credited
	spendable := l2.Balance(cs.signer.Addr, l2denom)
	if cs.toClass == "user" {
		spendable = spendable.Add(amt)
	}
	sendMsg := func(from henv.User, v math.Int) sdk.Msg {
		return banktypes.NewMsgSend(from.Addr, other.Addr, sdk.NewCoins(sdk.NewCoin(l2denom, v)))
	}
	okHook := false
	var data []byte
	one := math.OneInt()
	switch cs.payload {
	case "none":
	case "garbage":
		data = rapid.SliceOfN(rapid.Byte(), 1, 64).Draw(rt, "garbage")
	case "empty-tx":
		data = signTx(l2, nil, nil, nil, nil, henv.L2ChainID)
	case "truncated":
		full := signTx(l2, []sdk.Msg{sendMsg(cs.signer, one)}, []cryptotypes.PrivKey{cs.signer.Priv}, []uint64{num}, []uint64{seq}, henv.L2ChainID)
		data = full[:rapid.IntRange(1, len(full)-1).Draw(rt, "cut")]
	case "bad-signer":
		// a signed transaction whose signer address no longer decodes (bytes of the bech32 string replaced)
		full := signTx(l2, []sdk.Msg{sendMsg(cs.signer, one)}, []cryptotypes.PrivKey{cs.signer.Priv}, []uint64{num}, []uint64{seq}, henv.L2ChainID)
		data = append([]byte{}, full...)
		at := bytes.Index(data, []byte(cs.signer.Str))
		if at < 0 {
			rt.Fatalf("setup: signer address not found in the transaction bytes")
		}
		n := rapid.IntRange(1, 3).Draw(rt, "nbad")
		for i := 0; i < n; i++ {
			off := rapid.IntRange(0, len(cs.signer.Str)-1).Draw(rt, "off")
			data[at+off] = rapid.SampledFrom([]byte{0xff, 0x7f, 0x00, 'B', 'b', 'i', 'o', '1', ' ', 0xc3}).Draw(rt, "bad")
		}
		if bytes.Equal(data, full) {
			data[at+len(cs.signer.Str)/2] = 0xff
		}
	case "mutated":
		// one byte of a well-signed transaction changed
		full := signTx(l2, []sdk.Msg{sendMsg(cs.signer, one)}, []cryptotypes.PrivKey{cs.signer.Priv}, []uint64{num}, []uint64{seq}, henv.L2ChainID)
		data = append([]byte{}, full...)
		pos := rapid.IntRange(0, len(data)-1).Draw(rt, "pos")
		data[pos] ^= byte(rapid.IntRange(1, 255).Draw(rt, "xor"))
	case "badsig":
		data = signTx(l2, []sdk.Msg{sendMsg(cs.signer, one)}, []cryptotypes.PrivKey{cs.signer.Priv}, []uint64{num + 1}, []uint64{seq}, henv.L2ChainID)
	case "wrongseq":
		data = signTx(l2, []sdk.Msg{sendMsg(cs.signer, one)}, []cryptotypes.PrivKey{cs.signer.Priv}, []uint64{num}, []uint64{seq + 1}, henv.L2ChainID)
	case "wrongchain":
		data = signTx(l2, []sdk.Msg{sendMsg(cs.signer, one)}, []cryptotypes.PrivKey{cs.signer.Priv}, []uint64{num}, []uint64{seq}, "other-chain")
	case "ok-send", "ok-multi":
		n := 1
		if cs.payload == "ok-multi" {
			n = rapid.IntRange(2, 4).Draw(rt, "nmsgs")
		}
		if spendable.GTE(math.NewInt(int64(n))) {
			var msgs []sdk.Msg
			total := math.ZeroInt()
			for i := 0; i < n; i++ {
				msgs = append(msgs, sendMsg(cs.signer, one))
				total = total.Add(one)
			}
			cs.sent[other.Str] = total
			okHook = true
			data = signTx(l2, msgs, []cryptotypes.PrivKey{cs.signer.Priv}, []uint64{num}, []uint64{seq}, henv.L2ChainID)
		} else {
			cs.payload = "fail-k"
			data = signTx(l2, []sdk.Msg{sendMsg(cs.signer, spendable.AddRaw(1))}, []cryptotypes.PrivKey{cs.signer.Priv}, []uint64{num}, []uint64{seq}, henv.L2ChainID)
		}
	case "fail-k":
		n := rapid.IntRange(1, 3).Draw(rt, "nmsgs")
		k := rapid.IntRange(0, n-1).Draw(rt, "k")
		var msgs []sdk.Msg
		for i := 0; i < n; i++ {
			if i == k {
				msgs = append(msgs, sendMsg(cs.signer, spendable.AddRaw(5)))
			} else if spendable.IsPositive() {
				msgs = append(msgs, sendMsg(cs.signer, one))
			} else {
				msgs = append(msgs, sendMsg(cs.signer, spendable.AddRaw(7)))
			}
		}
		data = signTx(l2, msgs, []cryptotypes.PrivKey{cs.signer.Priv}, []uint64{num}, []uint64{seq}, henv.L2ChainID)
	case "unroutable":
		m := &authtypes.MsgUpdateParams{Authority: cs.signer.Str, Params: authtypes.DefaultParams()}
		data = signTx(l2, []sdk.Msg{m}, []cryptotypes.PrivKey{cs.signer.Priv}, []uint64{num}, []uint64{seq}, henv.L2ChainID)
	case "multi-signer":
		s2 := tc.users[4]
		n2, q2 := accInfo(l2, s2)
		if s2.Str == cs.signer.Str {
			cs.payload = "none"
			break
		}
		msgs := []sdk.Msg{banktypes.NewMsgSend(cs.signer.Addr, tc.users[3].Addr, sdk.NewCoins(coinOf("stake", 1))), banktypes.NewMsgSend(s2.Addr, tc.users[3].Addr, sdk.NewCoins(coinOf("stake", 1)))}
		data = signTx(l2, msgs, []cryptotypes.PrivKey{cs.signer.Priv, s2.Priv}, []uint64{num, n2}, []uint64{seq, q2}, henv.L2ChainID)
		okHook = true
	case "self-withdraw":
		if spendable.IsPositive() {
			data = signTx(l2, []sdk.Msg{opchildtypes.NewMsgInitiateTokenWithdrawal(cs.signer.Str, "l1-somebody-else", sdk.NewCoin(l2denom, one))}, []cryptotypes.PrivKey{cs.signer.Priv}, []uint64{num}, []uint64{seq}, henv.L2ChainID)
			cs.withdrawn = one
			okHook = true
		} else {
			cs.payload = "none"
		}
	case "withdraw-then-fail":
		// an early message of the hook succeeds (a withdrawal), a later one fails: nothing of the hook may remain
		if spendable.IsPositive() {
			msgs := []sdk.Msg{opchildtypes.NewMsgInitiateTokenWithdrawal(cs.signer.Str, "l1-somebody-else", sdk.NewCoin(l2denom, one)), sendMsg(cs.signer, spendable.AddRaw(5))}
			data = signTx(l2, msgs, []cryptotypes.PrivKey{cs.signer.Priv}, []uint64{num}, []uint64{seq}, henv.L2ChainID)
		} else {
			cs.payload = "none"
		}
	case "withdraw-native":
		// a single-message hook that writes before it fails: withdrawing a token that did not come from L1
		// burns first and is refused afterwards; none of it may stay
		data = signTx(l2, []sdk.Msg{opchildtypes.NewMsgInitiateTokenWithdrawal(cs.signer.Str, "l1-somebody-else", coinOf("stake", 3))}, []cryptotypes.PrivKey{cs.signer.Priv}, []uint64{num}, []uint64{seq}, henv.L2ChainID)
	case "withdraw-and-send":
		// the withdrawal is not the last message of a hook that succeeds
		if spendable.GTE(math.NewInt(2)) {
			msgs := []sdk.Msg{opchildtypes.NewMsgInitiateTokenWithdrawal(cs.signer.Str, "l1-somebody-else", sdk.NewCoin(l2denom, one)), sendMsg(cs.signer, one)}
			data = signTx(l2, msgs, []cryptotypes.PrivKey{cs.signer.Priv}, []uint64{num}, []uint64{seq}, henv.L2ChainID)
			cs.sent[other.Str], cs.withdrawn = one, one
			okHook = true
		} else {
			cs.payload = "none"
		}
	case "send-and-withdraw":
		if spendable.GTE(math.NewInt(2)) {
			msgs := []sdk.Msg{sendMsg(cs.signer, one), opchildtypes.NewMsgInitiateTokenWithdrawal(cs.signer.Str, "l1-somebody-else", sdk.NewCoin(l2denom, one))}
			data = signTx(l2, msgs, []cryptotypes.PrivKey{cs.signer.Priv}, []uint64{num}, []uint64{seq}, henv.L2ChainID)
			cs.sent[other.Str], cs.withdrawn = one, one
			okHook = true
		} else {
			cs.payload = "none"
		}
	case "reentrant-finalize":
		// signed by the executor: delivers this very deposit again from inside its own hook; the inner
		// delivery must be a no-op, so the hook succeeds and the deposit is credited exactly once
		ex := tc.executors[0]
		l2.Fund(ex.Addr, coinOf("stake", 5))
		en, es := accInfo(l2, ex)
		inner := opchildtypes.NewMsgFinalizeTokenDeposit(ex.Str, sender.Str, to, sdk.Coin{Denom: l2denom, Amount: amt}, nextSeq, uint64(tc.l1.Ctx.BlockHeight()), "uinit", nil)
		data = signTx(l2, []sdk.Msg{inner}, []cryptotypes.PrivKey{ex.Priv}, []uint64{en}, []uint64{es}, henv.L2ChainID)
		cs.signer = ex
		okHook = true
	case "self-exec":
		em, err := opchildtypes.NewMsgExecuteMessages(cs.signer.Str, []sdk.Msg{sendMsg(cs.signer, one)})
		if err != nil {
			panic(err)
		}
		data = signTx(l2, []sdk.Msg{em}, []cryptotypes.PrivKey{cs.signer.Priv}, []uint64{num}, []uint64{seq}, henv.L2ChainID)
	case "multibyte-error":
		// a well-formed transaction envelope whose only message has an unregistered type URL made of four-byte
		// characters: the decode error echoes it, so the failure reason is long in bytes and short in characters
		data = multibyteHookData(rapid.IntRange(20, 40).Draw(rt, "emoji"))
	case "handler-runtime-error":
		// a well-signed hook whose message handler hits a Go runtime error (not an explicit panic, not out of
		// gas): the L2 admin batches a parameter update without parameters, whose validation dereferences nil
		l2.Fund(tc.admin.Addr, coinOf("stake", 10))
		cs.signer = tc.admin // the account whose sequence the hook's ante handler advances
		an, as := accInfo(l2, tc.admin)
		em, err := opchildtypes.NewMsgExecuteMessages(tc.admin.Str, []sdk.Msg{&opchildtypes.MsgUpdateParams{Authority: l2.Authority}})
		if err != nil {
			panic(err)
		}
		data = signTx(l2, []sdk.Msg{em}, []cryptotypes.PrivKey{tc.admin.Priv}, []uint64{an}, []uint64{as}, henv.L2ChainID)
	case "gas-hog":
		var msgs []sdk.Msg
		for i := 0; i < 30; i++ {
			msgs = append(msgs, banktypes.NewMsgSend(cs.signer.Addr, tc.users[3].Addr, sdk.NewCoins(coinOf("stake", 1))))
		}
		data = signTx(l2, msgs, []cryptotypes.PrivKey{cs.signer.Priv}, []uint64{num}, []uint64{seq}, henv.L2ChainID)
	}

	r, p := tc.l1Deposit(sender, to, sdk.Coin{Denom: "uinit", Amount: amt}, data)
	if p == nil {
		// L1 refuses this deposit (e.g. an amount it does not accept): not a deposit L1 can emit
		cs.msg = nil
		cs.desc += fmt.Sprintf("L1 refused: %v", r.Err)
		return cs
	}
	if p.Seq != nextSeq {
		rt.Fatalf("setup: sequences out of step")
	}
	cs.msg = relayMsg(exec, p)

	// expectation
	recipientOK := cs.toAddr != nil && !cs.blocked
	switch {
	case !recipientOK && cs.blocked && amt.IsZero():
		cs.expect = "either"
	case !recipientOK:
		cs.expect = "B"
	case len(data) == 0:
		cs.expect = "A"
	case cs.hookMaxGas == 0:
		cs.expect = "B"
	case cs.payload == "empty-tx":
		cs.expect = "either" // a transaction without messages and signers is a hook that trivially succeeds
	case cs.hookMaxGas <= 500:
		cs.expect = "B" // not even reading the signer's account fits
	case okHook && cs.hookMaxGas == opchildtypes.DefaultHookMaxGas:
		cs.expect, cs.exact = "A", true
	case okHook:
		cs.expect = "either"
	case cs.payload == "gas-hog":
		if cs.hookMaxGas <= 50_000 {
			cs.expect = "B"
		} else {
			cs.expect = "either"
		}
	default:
		cs.expect = "B"
	}
	if cs.payload == "multi-signer" {
		cs.exact = false // effects are in another denom
	}
	cs.desc += fmt.Sprintf("to=%s(%q) amount=%s payload=%s(%dB) hookMaxGas=%d signer=%s expect=%s", cs.toClass, truncStr(to, 50), amt, cs.payload, len(data), cs.hookMaxGas, short(cs.signer.Str), cs.expect)
	return cs
}

func truncStr(s string, n int) string {
	if len(s) > n {
		return s[:n] + "…"
	}
	return s
}

// c07Snapshot is the semantic projection of the L2 state the oracle compares.
type c07Snapshot struct {
	dump   []henv.KV
	nextL2 uint64
	nextL1 uint64
	supply math.Int
	bal    map[string]math.Int // balance of the l2 denom per watched account
	stake  map[string]math.Int
}

func (cs *c07Case) watched() []sdk.AccAddress {
	var out []sdk.AccAddress
	for _, u := range cs.tc.users {
		out = append(out, u.Addr)
	}
	if cs.toAddr != nil {
		out = append(out, cs.toAddr)
	}
	out = append(out, authtypes.NewModuleAddress(opchildtypes.ModuleName))
	return out
}

func (cs *c07Case) snap(l2 *henv.L2) c07Snapshot {
	s := c07Snapshot{dump: l2.Dump(), bal: map[string]math.Int{}, stake: map[string]math.Int{}}
	s.nextL2, _ = l2.K.GetNextL2Sequence(l2.Ctx)
	s.nextL1, _ = l2.K.GetNextL1Sequence(l2.Ctx)
	d := cs.msg.Amount.Denom
	s.supply = l2.Supply(d)
	for _, a := range cs.watched() {
		s.bal[a.String()] = l2.Balance(a, d)
		s.stake[a.String()] = l2.Balance(a, "stake")
	}
	return s
}

// allowedDiffB: which raw keys may differ between pre and post state in outcome B.
func (cs *c07Case) allowedDiffB(store string, key []byte) bool {
	switch store {
	case "opchild":
		return len(key) > 0 && (key[0] == 0x12 || key[0] == 0x14 || key[0] == 0x41)
	case "bank":
		return len(key) > 0 && key[0] == 0x1 // denom metadata
	case "acc":
		if len(key) > 0 && key[0] == 0x01 {
			addr := sdk.AccAddress(key[1:])
			if addr.Equals(cs.signer.Addr) || (cs.toAddr != nil && addr.Equals(cs.toAddr)) || addr.Equals(authtypes.NewModuleAddress(opchildtypes.ModuleName)) {
				return true
			}
			for _, u := range cs.tc.users { // co-signers of a multi-signer hook consume their sequence too
				if cs.payload == "multi-signer" && addr.Equals(u.Addr) {
					return true
				}
			}
			return false
		}
		return true // account-number counter and index
	}
	return false
}

// judge classifies the result of the deposit and checks it against the statement.
// It returns "A", "B" or "clean-failure" (only acceptable under an injected fault).
func (cs *c07Case) judge(l2 *henv.L2, pre c07Snapshot, r henv.Result, faulted bool) (string, error) {
	post := cs.snap(l2)
	if !r.OK() {
		if henv.DigestKVs(pre.dump) != henv.DigestKVs(post.dump) {
			return "", fmt.Errorf("handler failed (%v) and left changes behind:\n%s", r.Err, henv.DiffKVs(pre.dump, post.dump))
		}
		if !faulted {
			return "", fmt.Errorf("finalization at the expected sequence returned an error, which stalls every later deposit: %v", r.Err)
		}
		return "clean-failure", nil
	}
	if resp := r.Resp.(*opchildtypes.MsgFinalizeTokenDepositResponse); resp.Result != opchildtypes.SUCCESS {
		return "", fmt.Errorf("response %v", resp.Result)
	}
	if post.nextL1 != pre.nextL1+1 {
		return "", fmt.Errorf("NextL1Sequence %d -> %d", pre.nextL1, post.nextL1)
	}
	m := cs.msg
	ws := parseWithdrawalEvents(r.Events)
	var refunds, hookWd []l2Withdrawal
	for _, w := range ws {
		if w.From == m.To && w.To == m.From && w.Denom == m.Amount.Denom {
			refunds = append(refunds, w)
		} else {
			hookWd = append(hookWd, w)
		}
	}
	if len(refunds) > 1 {
		return "", fmt.Errorf("%d refund withdrawals recorded", len(refunds))
	}
	if len(refunds) == 1 {
		// outcome B
		w := refunds[0]
		if !w.Amount.Equal(m.Amount.Amount) || w.BaseDenom != m.BaseDenom || w.Seq != pre.nextL2 {
			return "", fmt.Errorf("refund withdrawal %+v does not return the full amount %s of %s under sequence %d", w, m.Amount.Amount, m.BaseDenom, pre.nextL2)
		}
		if len(hookWd) != 0 {
			return "", fmt.Errorf("refunded deposit left hook withdrawals behind: %+v", hookWd)
		}
		if post.nextL2 != pre.nextL2+1 {
			return "", fmt.Errorf("NextL2Sequence %d -> %d after one refund", pre.nextL2, post.nextL2)
		}
		if !post.supply.Equal(pre.supply) {
			return "", fmt.Errorf("refunded deposit changed supply %s -> %s (net mint)", pre.supply, post.supply)
		}
		for a, b := range pre.bal {
			if !post.bal[a].Equal(b) || !post.stake[a].Equal(pre.stake[a]) {
				return "", fmt.Errorf("refunded deposit changed the balance of %s: %s -> %s (stake %s -> %s)", a, b, post.bal[a], pre.stake[a], post.stake[a])
			}
		}
		// raw state: nothing but the documented keys may differ
		idx := map[string][]byte{}
		for _, kv := range pre.dump {
			idx[kv.Store+"\x00"+string(kv.Key)] = kv.Value
		}
		seen := map[string]bool{}
		for _, kv := range post.dump {
			k := kv.Store + "\x00" + string(kv.Key)
			seen[k] = true
			if old, ok := idx[k]; (!ok || !bytes.Equal(old, kv.Value)) && !cs.allowedDiffB(kv.Store, kv.Key) {
				return "", fmt.Errorf("refunded deposit left a change behind in store %s key %x", kv.Store, kv.Key)
			}
		}
		for _, kv := range pre.dump {
			if !seen[kv.Store+"\x00"+string(kv.Key)] && !cs.allowedDiffB(kv.Store, kv.Key) {
				return "", fmt.Errorf("refunded deposit removed store %s key %x", kv.Store, kv.Key)
			}
		}
		// hook signer: only the sequence (and the public key) may have been consumed
		return "B", nil
	}
	// outcome A
	if cs.toAddr == nil {
		return "", fmt.Errorf("no refund recorded although the recipient %q is not an L2 address: the deposit is lost", m.To)
	}
	hw := math.ZeroInt()
	for _, w := range hookWd {
		if w.Denom == m.Amount.Denom {
			hw = hw.Add(w.Amount)
		}
	}
	if !post.supply.Sub(pre.supply).Equal(m.Amount.Amount.Sub(hw)) {
		return "", fmt.Errorf("credited deposit of %s changed supply by %s (hook withdrew %s)", m.Amount, post.supply.Sub(pre.supply), hw)
	}
	if post.nextL2 != pre.nextL2+uint64(len(hookWd)) {
		return "", fmt.Errorf("NextL2Sequence %d -> %d with %d hook withdrawals and no refund", pre.nextL2, post.nextL2, len(hookWd))
	}
	// value of the bridged denom is conserved among the watched accounts
	sumPre, sumPost := math.ZeroInt(), math.ZeroInt()
	for a, b := range pre.bal {
		sumPre = sumPre.Add(b)
		sumPost = sumPost.Add(post.bal[a])
	}
	if !sumPost.Sub(sumPre).Equal(m.Amount.Amount.Sub(hw)) {
		return "", fmt.Errorf("credited deposit of %s changed the holders' total by %s", m.Amount, sumPost.Sub(sumPre))
	}
	to := cs.toAddr.String()
	if cs.exact || len(m.Data) == 0 {
		want := pre.bal[to].Add(m.Amount.Amount)
		signer := cs.signer.Addr.String()
		spent := cs.withdrawn
		for _, v := range cs.sent {
			spent = spent.Add(v)
		}
		if len(m.Data) == 0 {
			spent = math.ZeroInt()
		}
		if signer == to {
			want = want.Sub(spent)
		}
		if !post.bal[to].Equal(want) {
			return "", fmt.Errorf("recipient holds %s, expected %s (credited %s, hook spent %s)", post.bal[to], want, m.Amount.Amount, spent)
		}
		if len(m.Data) != 0 {
			for a, v := range cs.sent {
				if a != to && !post.bal[a].Sub(pre.bal[a]).Equal(v) {
					return "", fmt.Errorf("hook effect missing: %s received %s, hook sent %s", a, post.bal[a].Sub(pre.bal[a]), v)
				}
			}
			if !hw.Equal(cs.withdrawn) {
				return "", fmt.Errorf("hook withdrew %s, expected %s", hw, cs.withdrawn)
			}
		}
	}
	return "A", nil
}

// liveness: after the deposit the bridge must still work: the next plain deposit is credited
// and its recipient can withdraw.
func (cs *c07Case) liveness(l2 *henv.L2) error {
	tc := cs.tc
	// the message a faithful relay would produce for the next L1 deposit (built by hand because
	// this runs on a throw-away branch of L2 while L1 is not branched)
	next, _ := l2.K.GetNextL1Sequence(l2.Ctx)
	p := &pendingDeposit{Seq: next, From: tc.users[1].Str, To: tc.users[2].Str, L1Denom: "uinit", L2Denom: tcL2Denom(tc, "uinit"), Amount: math.NewInt(77), L1Height: 7}
	msg := relayMsg(tc.executors[0].Str, p)
	before := l2.Balance(tc.users[2].Addr, msg.Amount.Denom)
	r := l2.Deliver(msg)
	if !r.OK() {
		return fmt.Errorf("the following plain deposit failed: %v", r.Err)
	}
	if ws := parseWithdrawalEvents(r.Events); len(ws) != 0 {
		return fmt.Errorf("the following plain deposit to a normal account was refunded instead of credited (events: %s)", henv.RenderEvents(r.Events))
	}
	if !l2.Balance(tc.users[2].Addr, msg.Amount.Denom).Sub(before).Equal(msg.Amount.Amount) {
		return fmt.Errorf("the following plain deposit was not credited")
	}
	if r := l2.Deliver(opchildtypes.NewMsgInitiateTokenWithdrawal(tc.users[2].Str, tc.users[2].Str, sdk.NewCoin(msg.Amount.Denom, math.NewInt(3)))); !r.OK() {
		return fmt.Errorf("withdrawal after the deposit failed: %v", r.Err)
	}
	return nil
}

const c07HandlerGas = 3_000_000

// c07GasSlack: the reference run differs from the real one only by the size of the hook signer's account
// record (public key and sequence set by the hook's ante steps), which the reclaim step reads back
const c07GasSlack = 400

// branch runs f on a throw-away copy of the L2 state.
func branchL2(l2 *henv.L2, f func(b *henv.L2)) {
	cctx, _ := l2.Ctx.CacheContext()
	b := *l2
	b.Ctx = cctx
	f(&b)
}

func c07Run(rt *rapid.T, rec *evid.Rec, withFaults bool) {
	cs := genC07Case(rt)
	c := rec.Begin()
	if cs.msg == nil {
		c.Class("l1-refused")
		c.Done()
		return
	}
	tc := cs.tc
	l2 := tc.l2
	pre := cs.snap(l2)
	limit := uint64(c07HandlerGas) + cs.hookMaxGas
	var outcome string
	var gasUsed uint64
	calls := 0
	var callLog []string
	branchL2(l2, func(b *henv.L2) {
		b.Fault.Reset(0, false)
		r := b.DeliverWithGas(cs.msg, limit)
		gasUsed = r.Gas
		calls, callLog = b.Fault.Calls, append([]string{}, b.Fault.Log...)
		var err error
		outcome, err = cs.judge(b, pre, r, false)
		if err != nil {
			rt.Fatalf("C07 violated: %v\ncase: %s", err, cs.desc)
		}
		if cs.expect != "either" && outcome != cs.expect {
			rt.Fatalf("C07 violated: outcome %s, the statement requires %s (events: %s)\ncase: %s", outcome, cs.expect, henv.RenderEvents(r.Events), cs.desc)
		}
		// "only the hook signer's account sequence is consumed": a well-signed hook that passed the signature checks
		// and failed at one of its messages has used up the sequence number it was signed for (its bytes are public
		// on L1 and must not be executable later, attached to another deposit)
		if outcome == "B" && (cs.payload == "fail-k" || cs.payload == "withdraw-then-fail") && cs.hookMaxGas == opchildtypes.DefaultHookMaxGas && cs.toAddr != nil && !cs.blocked {
			_, seq0 := accInfo(l2, cs.signer)
			if _, seq1 := accInfo(b, cs.signer); seq1 != seq0+1 {
				rt.Fatalf("C07 violated: a well-signed hook failed at one of its messages; the signer's account sequence went %d -> %d (the statement: it is consumed), so the same bytes can be executed with a later deposit\ncase: %s", seq0, seq1, cs.desc)
			}
			c.Class("failed-hook-consumed-its-signers-sequence")
		}
		if err := cs.liveness(b); err != nil {
			rt.Fatalf("C07 violated (bridge blocked after the deposit): %v\ncase: %s", err, cs.desc)
		}
	})
	// hook gas: compare with the same deposit carrying no hook (outcome A) or an undecodable one (B)
	if len(cs.msg.Data) > 0 && cs.toAddr != nil && !cs.blocked {
		refMsg := *cs.msg
		if outcome == "A" {
			refMsg.Data = nil
		} else {
			refMsg.Data = []byte{0xff}
		}
		branchL2(l2, func(b *henv.L2) {
			b.Fault.Reset(0, false)
			rr := b.DeliverWithGas(&refMsg, limit)
			if rr.OK() && gasUsed > rr.Gas+cs.hookMaxGas+c07GasSlack {
				rt.Fatalf("C07 violated: the hook cost %d gas on the outer meter, more than the configured %d\ncase: %s", gasUsed-rr.Gas, cs.hookMaxGas, cs.desc)
			}
		})
		c.Class("hook-gas-compared")
	}
	c.Class("to/" + cs.toClass)
	c.Class("payload/" + cs.payload)
	c.Class("outcome/" + outcome)
	c.Classf("hookMaxGas/%d", cs.hookMaxGas)
	nt := outcome == "B" && cs.toAddr != nil && !cs.blocked && len(cs.msg.Data) > 0 && cs.msg.Amount.IsPositive()
	if nt {
		c.Class("refund-after-successful-mint")
	}
	faults := 0
	if withFaults {
		for k := 1; k <= calls; k++ {
			for mode, pm := range []bool{false, true, true} {
				branchL2(l2, func(b *henv.L2) {
					b.Fault.Reset(k, pm)
					if mode == 2 {
						b.Fault.ResetAfter(k) // the keeper call is carried out, then panics
					}
					r := b.DeliverWithGas(cs.msg, limit)
					fired := b.Fault.Fired
					b.Fault.Reset(0, false)
					out, err := cs.judge(b, pre, r, true)
					if err != nil {
						rt.Fatalf("C07 violated with a fault (panic=%v) injected at call %d (%s): %v\ncalls: %v\ncase: %s", pm, k, fired, err, callLog, cs.desc)
					}
					// a failing mint/transfer must end as a refund, never as a handler error
					if k <= 2 && (fired == "bank.MintCoins" || fired == "bank.SendCoinsFromModuleToAccount") && callLog[0] == "bank.MintCoins" && out != "B" {
						rt.Fatalf("C07 violated: fault (panic=%v) in %s during the mint/transfer step ended as %s instead of a refund\ncase: %s", pm, fired, out, cs.desc)
					}
					if out != "clean-failure" {
						if err := cs.liveness(b); err != nil {
							rt.Fatalf("C07 violated (bridge blocked after a fault at call %d %s): %v\ncase: %s", k, fired, err, cs.desc)
						}
					}
					faults++
				})
			}
		}
		c.Classf("fault-points/%d", calls)
		if faults > 0 {
			nt = true
		}
	}
	if nt {
		c.NonTrivial()
		c.Shape(fmt.Sprintf("%s/%s/%s/%d/%s/%v/%d", cs.toClass, cs.payload, outcome, cs.hookMaxGas, cs.msg.Amount.Amount, strings.HasPrefix(cs.desc, "warm"), faults))
	}
	d := cs.desc
	c.Sample(func() interface{} {
		return map[string]interface{}{"case": d, "outcome": outcome, "gas": gasUsed, "keeper_calls": callLog, "faults_injected": faults}
	})
	c.Done()
}

func TestC07Rapid(t *testing.T) {
	rec := evid.For("C07")
	runRapid(t, 1500, 12000, func(rt *rapid.T) { c07Run(rt, rec, false) })
}

func TestC07Faults(t *testing.T) {
	rec := evid.For("C07")
	runRapid(t, 150, 2500, func(rt *rapid.T) { c07Run(rt, rec, true) })
}

// TestC07Denoms: L1 deposits of zero and positive amounts under well-formed, odd and malformed denom
// strings, to good and bad recipients, with and without hook data: whatever L1 accepts must be
// finalizable on L2 (credited or refunded) and leave the bridge live.
func TestC07Denoms(t *testing.T) {
	rec := evid.For("C07")
	denoms := []string{"uinit", "ibc/27394FB092D2ECCD56123C74F36E4C1F926001CEADA9CA97EA622B25F41E5EB2", "Mixed/Case-denom.x_1", "a" + strings.Repeat("b", 127), "abc",
		"1 not/a denom!", "ab", "a" + strings.Repeat("b", 128), "", "uinit ", "u,init", "9start", "l2/00", "ünit"}
	runRapid(t, 200, 3000, func(rt *rapid.T) {
		c := rec.Begin()
		c.Class("denoms")
		tc := newTwoChain(tcOpts{nExecutors: 1, fault: true})
		for _, u := range tc.users {
			tc.l2.Fund(u.Addr, coinOf("stake", 1000))
		}
		n := rapid.IntRange(1, 3).Draw(rt, "deposits")
		for i := 0; i < n; i++ {
			denom := rapid.SampledFrom(denoms).Draw(rt, "denom")
			amt := math.NewInt(int64(rapid.SampledFrom([]int{0, 0, 1, 1000}).Draw(rt, "amount")))
			to := rapid.SampledFrom([]string{tc.users[1].Str, tc.users[2].Str, "not-an-address"}).Draw(rt, "to")
			var data []byte
			if rapid.Bool().Draw(rt, "data") {
				data = []byte{0xff, 0x01}
			}
			m := &ophosttypes.MsgInitiateTokenDeposit{To: to, Amount: sdk.Coin{Denom: denom, Amount: amt}, Data: data}
			accepted, err := c07EndToEnd(tc, m)
			if err != nil {
				rt.Fatalf("C07 violated: %v", err)
			}
			if accepted {
				c.Class("denoms/accepted-by-l1")
				if sdk.ValidateDenom(denom) != nil {
					c.Class("denoms/malformed-denom-accepted-by-l1")
				}
			} else {
				c.Class("denoms/refused-by-l1")
			}
		}
		c.NonTrivial()
		c.Shape(fmt.Sprintf("denoms/%d", n))
		c.Done()
	})
}

// multibyteHookData is a well-formed transaction envelope whose only message has an unregistered type URL made
// of n four-byte characters: the decode error echoes it, so the hook's failure reason is long in bytes and
// short in characters.
func multibyteHookData(n int) []byte {
	body, err := (&txtypes.TxBody{Messages: []*codectypes.Any{{TypeUrl: "/" + strings.Repeat("\U0001F600", n)}}}).Marshal()
	if err != nil {
		panic(err)
	}
	auth, _ := (&txtypes.AuthInfo{Fee: &txtypes.Fee{}}).Marshal()
	data, err := (&txtypes.TxRaw{BodyBytes: body, AuthInfoBytes: auth}).Marshal()
	if err != nil {
		panic(err)
	}
	return data
}
