package props

import (
	"encoding/json"
	"flag"
	"fmt"
	"os"
	"path/filepath"
	"strconv"
	"strings"
	"testing"

	"pgregory.net/rapid"

	"verifharness/evid"
)

// Run configuration, handed over by the driver through the environment.
var (
	cfgTier    = envOr("VERIF_TIER", "quick")
	cfgSeed    = envInt("VERIF_SEED", 1)
	cfgShard   = envInt("VERIF_SHARD", 0)
	cfgNShards = envInt("VERIF_NSHARDS", 1)
	cfgScale   = envFloat("VERIF_SCALE", 1.0)
)

func envOr(k, d string) string {
	if v := os.Getenv(k); v != "" {
		return v
	}
	return d
}

func envInt(k string, d int) int {
	if v := os.Getenv(k); v != "" {
		if n, err := strconv.Atoi(v); err == nil {
			return n
		}
	}
	return d
}

func envFloat(k string, d float64) float64 {
	if v := os.Getenv(k); v != "" {
		if n, err := strconv.ParseFloat(v, 64); err == nil {
			return n
		}
	}
	return d
}

func thorough() bool { return cfgTier == "thorough" }

func TestMain(m *testing.M) {
	flag.Parse()
	code := m.Run()
	if out := os.Getenv("VERIF_EVID_OUT"); out != "" {
		if err := evid.Flush(out); err != nil {
			fmt.Fprintln(os.Stderr, "evidence flush failed:", err)
			if code == 0 {
				code = 3
			}
		}
	}
	os.Exit(code)
}

// runRapid runs prop with a case count chosen by tier (quick: q cases in this process;
// thorough: th cases in this shard) and a PRNG seed derived from VERIF_SEED and the shard
// index (rapid treats 0 as "random", so 0 is never passed).
func runRapid(t *testing.T, q, th int, prop func(*rapid.T)) {
	t.Helper()
	n := q
	if thorough() {
		n = th
	}
	n = int(float64(n) * cfgScale)
	if n < 1 {
		n = 1
	}
	if os.Getenv("VERIF_REPLAY") != "" {
		n = 1
	}
	seed := uint64(1 + 1000*cfgSeed + cfgShard)
	mustSetFlag("rapid.checks", strconv.Itoa(n))
	mustSetFlag("rapid.seed", strconv.FormatUint(seed, 10))
	rapid.Check(t, prop)
}

func mustSetFlag(name, val string) {
	if err := flag.Set(name, val); err != nil {
		panic(err)
	}
}

// enumShard reports whether enumerated case number i belongs to this shard.
func enumShard(i int) bool {
	if cfgNShards <= 1 {
		return true
	}
	return i%cfgNShards == cfgShard
}

// caseFail reports a failing enumerated (non-rapid) case: it writes a JSON replay file
// that `check --replay` feeds back through VERIF_CASE, then fails the test.
func caseFail(t *testing.T, caseID string, format string, args ...interface{}) {
	t.Helper()
	msg := fmt.Sprintf(format, args...)
	if dir := os.Getenv("VERIF_REPLAY_DIR"); dir != "" {
		_ = os.MkdirAll(dir, 0o755)
		name := strings.ReplaceAll(t.Name(), "/", "_")
		bz, _ := json.MarshalIndent(map[string]string{"kind": "case", "test": t.Name(), "case": caseID, "message": msg}, "", " ")
		_ = os.WriteFile(filepath.Join(dir, name+".case.json"), bz, 0o644)
	}
	t.Fatalf("case %s: %s", caseID, msg)
}

// replayCase returns the enumerated case to re-run ("" = run the whole enumeration).
func replayCase() string { return os.Getenv("VERIF_CASE") }

// oneOf draws from a weighted list: items repeated by weight keep every random choice
// inside rapid, so shrinking and replay work.
type weighted struct {
	name string
	w    int
}

func drawWeighted(t *rapid.T, label string, ws []weighted) string {
	total := 0
	for _, w := range ws {
		total += w.w
	}
	x := rapid.IntRange(0, total-1).Draw(t, label)
	for _, w := range ws {
		if x < w.w {
			return w.name
		}
		x -= w.w
	}
	return ws[len(ws)-1].name
}

// repeatSteps runs body as the single action of rapid's state-machine mode, so that every
// step is a group of the bit stream which the shrinker can delete as a whole. The number of
// steps is geometric with the given mean.
func repeatSteps(rt *rapid.T, avg int, body func(i int)) {
	mustSetFlag("rapid.steps", strconv.Itoa(avg))
	i := 0
	rt.Repeat(map[string]func(*rapid.T){"step": func(*rapid.T) { body(i); i++ }})
}
