package props

import (
	"bytes"
	"fmt"
	"sync"
	"testing"

	ophosttypes "github.com/initia-labs/OPinit/x/ophost/types"

	"verifharness/evid"
	"verifharness/ref"
)

// Identifier derivations (escrow address, L2 denom, withdrawal leaf) are called by message
// handlers and by gRPC queries / CheckTx, which run on other goroutines than block execution.
// The property-level checks run one goroutine; this check runs the derivations from several
// goroutines at once on generated arguments and compares every result with the independent
// sequential implementation, so a derivation that keeps state between calls is seen.
func concurrentIdentifiers(t *testing.T, pid string, workers, rounds int) {
	rec := evid.For(pid)
	type job struct {
		id, seq, amt uint64
		denom        string
		addr         []byte
		l2           string
		leaf         [32]byte
	}
	denoms := []string{"uinit", "uusdc", "ibc/27394FB092D2ECCD56123C74F36E4C1F926001CEADA9CA97EA622B25F41E5EB2", "u", "l2/abc", "UINIT", "a-very-long-denom-name-that-exceeds-one-sponge-block-................................................................................................................................"}
	jobs := make([][]job, workers)
	for w := 0; w < workers; w++ {
		for r := 0; r < rounds; r++ {
			j := job{id: uint64(1 + (w*7919+r*104729)%5000), seq: uint64(r*workers + w + 1), amt: uint64(w*1000003+r*17) + 1, denom: denoms[(w+r)%len(denoms)]}
			if r%11 == 0 {
				j.id = ^uint64(0) - uint64(w)
			}
			j.addr = ref.BridgeAddress(j.id)
			j.l2 = ref.L2Denom(j.id, j.denom)
			j.leaf = ref.Leaf(j.id, j.seq, "sender"+fmt.Sprint(w), "receiver"+fmt.Sprint(r), j.denom, j.amt)
			jobs[w] = append(jobs[w], j)
		}
	}
	var wg sync.WaitGroup
	errs := make(chan string, workers)
	for w := 0; w < workers; w++ {
		wg.Add(1)
		go func(w int) {
			defer wg.Done()
			defer func() {
				if p := recover(); p != nil {
					errs <- fmt.Sprintf("worker %d: panic %v", w, p)
				}
			}()
			for r, j := range jobs[w] {
				if got := ophosttypes.BridgeAddress(j.id); !bytes.Equal(got, j.addr) {
					errs <- fmt.Sprintf("worker %d round %d: escrow address of bridge %d is %x, independent derivation %x", w, r, j.id, []byte(got), j.addr)
					return
				}
				if got := ophosttypes.L2Denom(j.id, j.denom); got != j.l2 {
					errs <- fmt.Sprintf("worker %d round %d: L2 denom of (%d,%q) is %s, independent derivation %s", w, r, j.id, j.denom, got, j.l2)
					return
				}
				if got := ophosttypes.GenerateWithdrawalHash(j.id, j.seq, "sender"+fmt.Sprint(w), "receiver"+fmt.Sprint(r), j.denom, j.amt); got != j.leaf {
					errs <- fmt.Sprintf("worker %d round %d: withdrawal hash differs from the independent derivation", w, r)
					return
				}
			}
		}(w)
	}
	wg.Wait()
	close(errs)
	for e := range errs {
		caseFail(t, "concurrent-identifiers", "%s violated: an identifier derived while other goroutines derive identifiers differs from its definition: %s", pid, e)
	}
	for w := 0; w < workers; w++ {
		c := rec.Begin()
		c.Class("concurrent-identifier-worker")
		c.NonTrivial()
		c.Shape(fmt.Sprintf("concurrent-identifiers/%d", w))
		c.Done()
	}
	rec.Note(fmt.Sprintf("%d goroutines x %d rounds of concurrent escrow-address / L2-denom / withdrawal-hash derivations compared with the sequential reference", workers, rounds))
}

func TestC01ConcurrentIdentifiers(t *testing.T) { concurrentIdentifiers(t, "C01", 8, 3000) }
func TestC10ConcurrentIdentifiers(t *testing.T) { concurrentIdentifiers(t, "C10", 8, 3000) }
func TestC17ConcurrentIdentifiers(t *testing.T) { concurrentIdentifiers(t, "C17", 8, 3000) }

// identifiersNotAliased: a derived escrow address is a fresh value. A caller that modifies the bytes
// it got back (in place, or through append on a sub-slice, which writes into the same backing array)
// must not change what the next derivation for that bridge returns.
func identifiersNotAliased(t *testing.T, pid string) {
	rec := evid.For(pid)
	ids := []uint64{1, 2, 3, 255, 256, 1 << 32, 1<<63 - 1, ^uint64(0)}
	for round := 0; round < 3; round++ {
		for _, id := range ids {
			want := ref.BridgeAddress(id)
			got := ophosttypes.BridgeAddress(id)
			if !bytes.Equal(got, want) {
				caseFail(t, "aliasing", "%s violated: escrow address of bridge %d is %x, its definition gives %x (round %d, after earlier results were modified by their callers)", pid, id, []byte(got), want, round)
			}
			// what callers may do with a value they own
			switch round {
			case 0:
				for i := range got {
					got[i] ^= 0xff
				}
			case 1:
				if len(got) >= 20 {
					_ = append(got[:20], []byte("/suffix-written-by-the-caller")...)
				}
			}
			c := rec.Begin()
			c.Class("identifier-result-modified-by-caller")
			c.NonTrivial()
			c.Shape(fmt.Sprintf("aliasing/%d/%d", round, id))
			c.Done()
		}
	}
}

func TestC01ResultAliasing(t *testing.T) { identifiersNotAliased(t, "C01") }
func TestC17ResultAliasing(t *testing.T) { identifiersNotAliased(t, "C17") }
