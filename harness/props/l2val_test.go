package props

import (
	"bytes"
	"fmt"
	"sort"
	"strings"
	"time"

	abci "github.com/cometbft/cometbft/abci/types"
	cmtproto "github.com/cometbft/cometbft/proto/tendermint/types"
	sdk "github.com/cosmos/cosmos-sdk/types"
	"pgregory.net/rapid"

	"github.com/cosmos/cosmos-sdk/crypto/keys/secp256k1"
	cryptotypes "github.com/cosmos/cosmos-sdk/crypto/types"

	opchildtypes "github.com/initia-labs/OPinit/x/opchild/types"

	"verifharness/henv"
)

// The L2 validator machine: blocks of add / remove / parameter messages around the real
// BeginBlocker / EndBlocker, with a real CometBFT ValidatorSet fed with every update batch.

const nValOps, nValKeys = 4, 4

type valWorld struct {
	l2        *henv.L2
	admin     henv.User
	executors []henv.User
	ops       []sdk.ValAddress      // operator addresses
	keys      []cryptotypes.PrivKey // consensus keys
	// spellUpper, when set, decides per addition whether the operator is spelled in upper case
	spellUpper func() bool
	// model, from observed successes
	bonded     map[string]int   // operator index (as string of ValAddress) -> key index, power 1
	pending    map[string]int   // validators stored with power 1 but not yet in the bonded set (added this block)
	zeroed     map[string]bool  // removed this block (power 0), to be purged at EndBlock
	keyOf      map[string]int   // every stored validator's key index
	pow        map[string]int64 // bonded power per operator (1 unless genesis said otherwise)
	maxVals    uint32
	histN      uint32
	histNever0 bool
	pruned     map[int64]bool
	recorded   map[int64]string // height -> rendered bonded set at begin of that block (when retention > 0)
	log        []string
	touched    map[string]int // per block: how often an operator or key was touched
	blockOps   int
	ntBlocks   int
}

func (w *valWorld) logf(f string, a ...interface{}) { w.log = append(w.log, fmt.Sprintf(f, a...)) }
func (w *valWorld) history() string                 { return strings.Join(w.log, "\n") }

// valWorldSecp: the next world's consensus parameters admit secp256k1 keys too and every second key is one.
var valWorldSecp bool

// valWorldLongOps: two of the next world's operator addresses are 32 bytes long and share a 20-byte prefix.
var valWorldLongOps bool

func newValWorld(nGenesis int, maxVals uint32, histN uint32, genesisPowers ...int64) (*valWorld, error) {
	w := &valWorld{pow: map[string]int64{}, bonded: map[string]int{}, pending: map[string]int{}, zeroed: map[string]bool{}, keyOf: map[string]int{}, recorded: map[int64]string{}, pruned: map[int64]bool{}, touched: map[string]int{},
		maxVals: maxVals, histN: histN, histNever0: histN > 0}
	w.admin = henv.MakeUser("val-admin")
	w.executors = []henv.User{henv.MakeUser("val-exec-0")}
	w.l2 = henv.NewL2(henv.L2Options{Admin: w.admin.Str, Executors: []string{w.executors[0].Str}})
	for i := 0; i < nValOps; i++ {
		w.ops = append(w.ops, sdk.ValAddress(henv.MakeUser(fmt.Sprintf("val-op-%d", i)).Addr))
	}
	if valWorldLongOps {
		// two operators with 32-byte addresses (module-derived or contract accounts) that share their first 20 bytes
		base := henv.MakeUser("val-op-long").Addr
		w.ops[nValOps-2] = sdk.ValAddress(append(append([]byte{}, base...), bytes.Repeat([]byte{0x01}, 12)...))
		w.ops[nValOps-1] = sdk.ValAddress(append(append([]byte{}, base...), bytes.Repeat([]byte{0x02}, 12)...))
	}
	keyTypes := []string{"ed25519"}
	if valWorldSecp {
		keyTypes = append(keyTypes, "secp256k1") // a chain whose consensus parameters admit both key types
	}
	for i := 0; i < nValKeys+2; i++ {
		if valWorldSecp && i%2 == 1 {
			w.keys = append(w.keys, secp256k1.GenPrivKeyFromSecret([]byte(fmt.Sprintf("verif-cons-secp-%d", i))))
			continue
		}
		w.keys = append(w.keys, henv.MakeConsKey(fmt.Sprintf("k%d", i)))
	}
	l2 := w.l2
	l2.Ctx = l2.Ctx.WithConsensusParams(cmtproto.ConsensusParams{Validator: &cmtproto.ValidatorParams{PubKeyTypes: keyTypes}})
	gs := opchildtypes.DefaultGenesisState()
	gs.Params.Admin = w.admin.Str
	gs.Params.BridgeExecutors = []string{w.executors[0].Str}
	gs.Params.MaxValidators = maxVals
	gs.Params.HistoricalEntries = histN
	for i := 0; i < nGenesis; i++ {
		v, err := opchildtypes.NewValidator(w.ops[i], w.keys[i].PubKey(), fmt.Sprintf("gen%d", i))
		if err != nil {
			return nil, err
		}
		if i < len(genesisPowers) && genesisPowers[i] == -1 {
			// a genesis entry without power (genesis validation accepts it): it never bonds, so it is neither
			// announced to the consensus engine nor kept in state
			v.ConsPower = 0
			gs.Validators = append(gs.Validators, v)
			continue
		}
		w.pow[string(w.ops[i])] = 1
		if i < len(genesisPowers) && genesisPowers[i] > 0 {
			v.ConsPower = genesisPowers[i]
			w.pow[string(w.ops[i])] = genesisPowers[i]
		}
		gs.Validators = append(gs.Validators, v)
		w.bonded[string(w.ops[i])] = i
		w.keyOf[string(w.ops[i])] = i
	}
	if err := opchildtypes.ValidateGenesis(gs, l2.AK.AddressCodec()); err != nil {
		return nil, fmt.Errorf("harness: generated genesis does not validate: %w", err)
	}
	updates := l2.K.InitGenesis(l2.Ctx, gs)
	if err := l2.ApplyUpdates(updates); err != nil {
		return nil, fmt.Errorf("InitGenesis updates rejected by the consensus engine: %w", err)
	}
	w.logf("genesis: %d validators, max=%d, retention=%d", nGenesis, maxVals, histN)
	return w, nil
}

func (w *valWorld) keyIndex(pk []byte) int {
	for i, k := range w.keys {
		if bytes.Equal(k.PubKey().Bytes(), pk) {
			return i
		}
	}
	return -1
}

func (w *valWorld) opIndex(op string) int {
	for i, o := range w.ops {
		if string(o) == op {
			return i
		}
	}
	return -1
}

// storedCount is the number of validator records the model expects in state.
func (w *valWorld) storedCount() int { return len(w.keyOf) }

func (w *valWorld) keyInUse(k int) bool {
	for _, x := range w.keyOf {
		if x == k {
			return true
		}
	}
	return false
}

// positive counts model validators with power > 0 (bonded or pending, not zeroed).
func (w *valWorld) positive() int {
	n := 0
	for op := range w.keyOf {
		if !w.zeroed[op] {
			n++
		}
	}
	return n
}

func (w *valWorld) add(opI, keyI int) (henv.Result, error) {
	opStr := w.ops[opI].String()
	if w.spellUpper != nil && w.spellUpper() {
		opStr = strings.ToUpper(opStr) // the same operator address in its all-upper-case spelling (valid bech32)
	}
	msg, err := opchildtypes.NewMsgAddValidator(fmt.Sprintf("m%d", opI), w.l2.Authority, opStr, w.keys[keyI].PubKey())
	if err != nil {
		return henv.Result{}, err
	}
	op := string(w.ops[opI])
	_, opExists := w.keyOf[op]
	want := !opExists && !w.keyInUse(keyI) && uint32(w.storedCount()) < w.maxVals
	r := w.l2.Deliver(msg)
	w.logf("  add(op%d,key%d) -> %v", opI, keyI, r.Err)
	w.touched[fmt.Sprintf("op%d", opI)]++
	w.touched[fmt.Sprintf("key%d", keyI)]++
	w.blockOps++
	if r.OK() != want {
		return r, fmt.Errorf("add(op%d,key%d): accepted=%v, expected %v (operator stored=%v, key in use=%v, stored %d of max %d): %v", opI, keyI, r.OK(), want, opExists, w.keyInUse(keyI), w.storedCount(), w.maxVals, r.Err)
	}
	if r.OK() {
		w.keyOf[op] = keyI
		w.pending[op] = keyI
	}
	return r, nil
}

// addBatch: the admin submits two validator additions in one batch (MsgExecuteMessages, both inner
// messages signed by the module authority). The second message sees what the first one did; the
// batch is all-or-nothing.
func (w *valWorld) addBatch(op1, key1, op2, key2 int) error {
	m1, _ := opchildtypes.NewMsgAddValidator(fmt.Sprintf("m%d", op1), w.l2.Authority, w.ops[op1].String(), w.keys[key1].PubKey())
	m2, _ := opchildtypes.NewMsgAddValidator(fmt.Sprintf("m%d", op2), w.l2.Authority, w.ops[op2].String(), w.keys[key2].PubKey())
	msg, err := opchildtypes.NewMsgExecuteMessages(w.admin.Str, []sdk.Msg{m1, m2})
	if err != nil {
		return err
	}
	o1, o2 := string(w.ops[op1]), string(w.ops[op2])
	_, e1 := w.keyOf[o1]
	want1 := !e1 && !w.keyInUse(key1) && uint32(w.storedCount()) < w.maxVals
	want2 := false
	if want1 {
		w.keyOf[o1] = key1 // as the second message sees the state
		_, e2 := w.keyOf[o2]
		want2 = !e2 && !w.keyInUse(key2) && uint32(w.storedCount()) < w.maxVals
		delete(w.keyOf, o1)
	}
	r := w.l2.Deliver(msg)
	w.logf("  batch[add(op%d,key%d), add(op%d,key%d)] -> %v", op1, key1, op2, key2, r.Err)
	for _, tname := range []string{fmt.Sprintf("op%d", op1), fmt.Sprintf("key%d", key1), fmt.Sprintf("op%d", op2), fmt.Sprintf("key%d", key2)} {
		w.touched[tname]++
	}
	w.blockOps++
	if want := want1 && want2; r.OK() != want {
		return fmt.Errorf("batch[add(op%d,key%d), add(op%d,key%d)]: accepted=%v, expected %v (first alone acceptable=%v, second after the first=%v; stored %d of max %d): %v", op1, key1, op2, key2, r.OK(), want, want1, want2, w.storedCount(), w.maxVals, r.Err)
	}
	if r.OK() {
		w.keyOf[o1], w.pending[o1] = key1, key1
		w.keyOf[o2], w.pending[o2] = key2, key2
	}
	return nil
}

func (w *valWorld) remove(opI int) (henv.Result, bool, error) {
	op := string(w.ops[opI])
	_, exists := w.keyOf[op]
	// CometBFT never holds an empty validator set: the authority does not remove the last one
	if exists && !w.zeroed[op] && w.positive() <= 1 {
		return henv.Result{}, true, nil
	}
	msg, _ := opchildtypes.NewMsgRemoveValidator(w.l2.Authority, w.ops[opI].String())
	r := w.l2.Deliver(msg)
	w.logf("  remove(op%d) -> %v", opI, r.Err)
	w.touched[fmt.Sprintf("op%d", opI)]++
	if k, ok := w.keyOf[op]; ok {
		w.touched[fmt.Sprintf("key%d", k)]++
	}
	w.blockOps++
	if r.OK() != exists {
		return r, false, fmt.Errorf("remove(op%d): accepted=%v, validator stored=%v: %v", opI, r.OK(), exists, r.Err)
	}
	if r.OK() {
		w.zeroed[op] = true
	}
	return r, false, nil
}

func (w *valWorld) setParams(maxVals, histN uint32) (henv.Result, error) {
	p, err := w.l2.K.GetParams(w.l2.Ctx)
	if err != nil {
		return henv.Result{}, err
	}
	p.MaxValidators, p.HistoricalEntries = maxVals, histN
	r := w.l2.Deliver(opchildtypes.NewMsgUpdateParams(w.l2.Authority, &p))
	want := maxVals > 0 && int(maxVals) >= w.storedCount()
	w.logf("  params(max=%d,retention=%d) -> %v", maxVals, histN, r.Err)
	if r.OK() != want {
		return r, fmt.Errorf("params(max=%d) with %d stored validators: accepted=%v, expected %v: %v", maxVals, w.storedCount(), r.OK(), want, r.Err)
	}
	if r.OK() {
		w.maxVals, w.histN = maxVals, histN
		if histN == 0 {
			w.histNever0 = false
		}
	}
	return r, nil
}

func (w *valWorld) renderBonded() string {
	var xs []string
	for op, k := range w.bonded {
		xs = append(xs, fmt.Sprintf("%X=%d", w.keys[k].PubKey().Address()[:4], w.pow[op]))
	}
	sort.Strings(xs)
	return strings.Join(xs, ",")
}

// beginBlock runs BeginBlocker and records what the historical entry of this height must hold.
func (w *valWorld) beginBlock() error {
	w.touched, w.blockOps = map[string]int{}, 0
	if err := w.l2.BeginBlock(); err != nil {
		return fmt.Errorf("BeginBlocker failed at height %d: %w", w.l2.Ctx.BlockHeight(), err)
	}
	h := w.l2.Ctx.BlockHeight()
	if w.histN > 0 {
		w.recorded[h] = w.renderBonded()
	}
	return w.checkHistory()
}

func (w *valWorld) checkHistory() error {
	h := w.l2.Ctx.BlockHeight()
	l2 := w.l2
	// entries at or below height - retention are pruned for good (raising the retention later
	// does not bring them back)
	for hh := range w.recorded {
		if hh <= h-int64(w.histN) {
			delete(w.recorded, hh)
			w.pruned[hh] = true
		}
	}
	for hh := range w.pruned {
		if _, err := l2.K.GetHistoricalInfo(l2.Ctx, hh); err == nil && w.histNever0 {
			return fmt.Errorf("historical info of height %d is still stored at height %d although it fell out of the retention", hh, h)
		}
	}
	for hh, want := range w.recorded {
		hi, err := l2.K.GetHistoricalInfo(l2.Ctx, hh)
		if err != nil {
			return fmt.Errorf("historical info of height %d (within the retention of %d at height %d) is missing: %v", hh, w.histN, h, err)
		}
		var xs []string
		for _, v := range hi.Valset {
			pk, err := v.ConsPubKey()
			if err != nil {
				return err
			}
			xs = append(xs, fmt.Sprintf("%X=%d", pk.Address()[:4], v.Tokens.Quo(sdk.DefaultPowerReduction).Int64()))
		}
		sort.Strings(xs)
		if got := strings.Join(xs, ","); got != want {
			return fmt.Errorf("historical info of height %d lists {%s}, the bonded set at the begin of that block was {%s}", hh, got, want)
		}
		if hi.Header.Height != hh {
			return fmt.Errorf("historical info of height %d carries header height %d", hh, hi.Header.Height)
		}
	}
	return nil
}

// endBlock runs EndBlocker, feeds the mirror and checks every C13 invariant.
func (w *valWorld) endBlock() ([]abci.ValidatorUpdate, error) {
	l2 := w.l2
	updates, err := l2.EndBlock()
	if err != nil {
		return nil, fmt.Errorf("EndBlocker failed at height %d: %w", l2.Ctx.BlockHeight(), err)
	}
	if err := l2.ApplyUpdates(updates); err != nil {
		return updates, fmt.Errorf("the consensus engine rejects the update batch of height %d (%s): %w", l2.Ctx.BlockHeight(), renderUpdates(updates), err)
	}
	// model step
	for op, k := range w.pending {
		if !w.zeroed[op] {
			w.bonded[op] = k
			w.pow[op] = 1
		}
	}
	w.pending = map[string]int{}
	for op := range w.zeroed {
		delete(w.bonded, op)
		delete(w.keyOf, op)
		delete(w.pow, op)
	}
	w.zeroed = map[string]bool{}
	ntBlock := false
	for _, n := range w.touched {
		if n >= 2 {
			ntBlock = true
		}
	}
	if ntBlock {
		w.ntBlocks++
	}
	w.logf("endblock h=%d updates=[%s] -> engine set {%s}", l2.Ctx.BlockHeight(), renderUpdates(updates), henv.RenderPowerMap(l2.MirrorMap()))
	return updates, w.invariants()
}

func renderUpdates(us []abci.ValidatorUpdate) string {
	var xs []string
	for _, u := range us {
		kb := u.PubKey.GetEd25519()
		if kb == nil {
			kb = u.PubKey.GetSecp256K1()
		}
		if len(kb) < 4 {
			kb = append(kb, 0, 0, 0, 0)
		}
		xs = append(xs, fmt.Sprintf("%X:%d", kb[:4], u.Power))
	}
	return strings.Join(xs, " ")
}

func (w *valWorld) invariants() error {
	l2 := w.l2
	pos, all, err := l2.StateValidators()
	if err != nil {
		return err
	}
	mirror := l2.MirrorMap()
	if henv.RenderPowerMap(mirror) != henv.RenderPowerMap(pos) {
		return fmt.Errorf("consensus engine holds {%s}, L2 state has positive-power validators {%s}", henv.RenderPowerMap(mirror), henv.RenderPowerMap(pos))
	}
	// model (what the successful messages add up to)
	want := map[string]int64{}
	for op, k := range w.bonded {
		want[string(w.keys[k].PubKey().Address())] = w.pow[op]
	}
	if henv.RenderPowerMap(mirror) != henv.RenderPowerMap(want) {
		return fmt.Errorf("consensus engine holds {%s}, accepted messages add up to {%s}", henv.RenderPowerMap(mirror), henv.RenderPowerMap(want))
	}
	// last powers
	last := map[string]int64{}
	err = l2.K.IterateLastValidatorPowers(l2.Ctx, func(op []byte, p int64) (bool, error) {
		v, found := l2.K.GetValidator(l2.Ctx, op)
		if !found {
			return true, fmt.Errorf("last-power entry for %X without a validator record", op)
		}
		ca, err := v.GetConsAddr()
		if err != nil {
			return true, err
		}
		last[string(ca)] = p
		return false, nil
	})
	if err != nil {
		return err
	}
	if henv.RenderPowerMap(last) != henv.RenderPowerMap(mirror) {
		return fmt.Errorf("recorded last validator powers {%s} differ from the engine's set {%s}", henv.RenderPowerMap(last), henv.RenderPowerMap(mirror))
	}
	// indexes are one-to-one with stored validators; nobody is left with power 0
	seenCons := map[string]bool{}
	for _, v := range all {
		if v.ConsPower <= 0 {
			return fmt.Errorf("validator %s is still stored with power %d at the end of the block", v.OperatorAddress, v.ConsPower)
		}
		ca, _ := v.GetConsAddr()
		if seenCons[string(ca)] {
			return fmt.Errorf("two stored validators share consensus key %X", ca)
		}
		seenCons[string(ca)] = true
		by, found := l2.K.GetValidatorByConsAddr(l2.Ctx, ca)
		if !found || by.OperatorAddress != v.OperatorAddress {
			return fmt.Errorf("consensus-key index of %X points to %q (found=%v), stored validator is %s", ca, by.OperatorAddress, found, v.OperatorAddress)
		}
		res, err := l2.Q.Validator(l2.Ctx, &opchildtypes.QueryValidatorRequest{ValidatorAddr: v.OperatorAddress})
		if err != nil || res.Validator.OperatorAddress != v.OperatorAddress {
			return fmt.Errorf("Query/Validator(%s): %v", v.OperatorAddress, err)
		}
	}
	nIdx := 0
	err = l2.K.ValidatorsByConsAddr.Walk(l2.Ctx, nil, func(ca []byte, op []byte) (bool, error) {
		nIdx++
		if _, found := l2.K.GetValidator(l2.Ctx, op); !found {
			return true, fmt.Errorf("consensus-key index entry %X points to missing operator %X", ca, op)
		}
		if !seenCons[string(ca)] {
			return true, fmt.Errorf("consensus-key index entry %X belongs to no stored validator", ca)
		}
		return false, nil
	})
	if err != nil {
		return err
	}
	if nIdx != len(all) {
		return fmt.Errorf("%d consensus-key index entries for %d stored validators", nIdx, len(all))
	}
	if len(all) != len(w.keyOf) {
		return fmt.Errorf("%d validators stored, accepted messages add up to %d", len(all), len(w.keyOf))
	}
	p, _ := l2.K.GetParams(l2.Ctx)
	if uint32(len(all)) > p.MaxValidators {
		return fmt.Errorf("%d validators stored, maximum is %d", len(all), p.MaxValidators)
	}
	qv, err := l2.Q.Validators(l2.Ctx, &opchildtypes.QueryValidatorsRequest{})
	if err != nil || len(qv.Validators) != len(all) {
		return fmt.Errorf("Query/Validators lists %d, stored %d (%v)", len(qv.GetValidators()), len(all), err)
	}
	return nil
}

// runBlock executes one generated block.
func (w *valWorld) runBlock(rt *rapid.T) error {
	w.spellUpper = func() bool { return rapid.IntRange(0, 7).Draw(rt, "upperOperator") == 0 }
	defer func() { w.spellUpper = nil }()
	if err := w.beginBlock(); err != nil {
		return err
	}
	n := rapid.IntRange(0, 4).Draw(rt, "nops")
	for i := 0; i < n; i++ {
		switch drawWeighted(rt, "vop", []weighted{{"add", 6}, {"remove", 5}, {"max", 1}, {"hist", 1}, {"add-batch", 1}}) {
		case "add-batch":
			if err := w.addBatch(rapid.IntRange(0, nValOps-1).Draw(rt, "op1"), rapid.IntRange(0, nValKeys-1).Draw(rt, "key1"), rapid.IntRange(0, nValOps-1).Draw(rt, "op2"), rapid.IntRange(0, nValKeys-1).Draw(rt, "key2")); err != nil {
				return err
			}
		case "add":
			if _, err := w.add(rapid.IntRange(0, nValOps-1).Draw(rt, "op"), rapid.IntRange(0, nValKeys-1).Draw(rt, "key")); err != nil {
				return err
			}
		case "remove":
			if _, _, err := w.remove(rapid.IntRange(0, nValOps-1).Draw(rt, "op")); err != nil {
				return err
			}
		case "max":
			if _, err := w.setParams(uint32(rapid.IntRange(0, 5).Draw(rt, "max")), w.histN); err != nil {
				return err
			}
		case "hist":
			if _, err := w.setParams(w.maxVals, uint32(rapid.SampledFrom([]int{0, 1, 2, 3, 5, 100}).Draw(rt, "hist"))); err != nil {
				return err
			}
		}
	}
	if _, err := w.endBlock(); err != nil {
		return err
	}
	w.l2.NextBlock(time.Second * 5)
	return nil
}

// restart exports the L2 between two blocks and starts a new chain from that genesis (through JSON). The validator
// updates returned by InitGenesis are what the new chain's consensus engine starts with; historical entries are
// not part of the genesis, so the model forgets them.
func (w *valWorld) restart() error {
	old := w.l2
	var execs []string
	for _, e := range w.executors {
		execs = append(execs, e.Str)
	}
	n := henv.NewL2(henv.L2Options{Admin: w.admin.Str, Executors: execs})
	n.Ctx = n.Ctx.WithBlockHeight(old.Ctx.BlockHeight()).WithBlockTime(old.Ctx.BlockTime()).WithBlockHeader(old.Ctx.BlockHeader()).WithConsensusParams(old.Ctx.ConsensusParams())
	n.AK.InitGenesis(n.Ctx, *old.AK.ExportGenesis(old.Ctx))
	n.BK.InitGenesis(n.Ctx, old.BK.ExportGenesis(old.Ctx))
	var gs opchildtypes.GenesisState
	n.Enc.Marshaler.MustUnmarshalJSON(old.Enc.Marshaler.MustMarshalJSON(old.K.ExportGenesis(old.Ctx)), &gs)
	updates := n.K.InitGenesis(n.Ctx.WithBlockHeight(0), &gs) // InitChain runs at height 0
	if err := n.ApplyUpdates(updates); err != nil {
		return fmt.Errorf("the validator updates returned by InitGenesis after a restart are rejected by the consensus engine: %w", err)
	}
	if a, b := henv.RenderPowerMap(old.MirrorMap()), henv.RenderPowerMap(n.MirrorMap()); a != b {
		return fmt.Errorf("after a restart from the exported genesis the consensus engine starts with {%s}, it held {%s}", b, a)
	}
	w.l2 = n
	w.recorded, w.pruned = map[int64]string{}, map[int64]bool{}
	w.logf("restart from the exported genesis at height %d, engine set {%s}", n.Ctx.BlockHeight(), henv.RenderPowerMap(n.MirrorMap()))
	return w.invariants()
}

// setParamsDirect changes max validators / retention between blocks (authority message, must succeed).
func (w *valWorld) setParamsDirect(maxVals, histN uint32) (henv.Result, error) {
	r, err := w.setParams(maxVals, histN)
	if err == nil && !r.OK() {
		err = fmt.Errorf("params update failed: %v", r.Err)
	}
	return r, err
}
