package props

import (
	"errors"
	"fmt"
	"sort"
	"strings"
	"testing"
	"time"

	"cosmossdk.io/math"
	sdk "github.com/cosmos/cosmos-sdk/types"
	sdkerrors "github.com/cosmos/cosmos-sdk/types/errors"
	"pgregory.net/rapid"

	opchildtypes "github.com/initia-labs/OPinit/x/opchild/types"

	"verifharness/evid"
	"verifharness/henv"
)

type c14Plan struct {
	height    uint64
	opI, keyI int
	executors []string
}

func (w *valWorld) pubKeyJSON(keyI int) string {
	bz, err := w.l2.Enc.Marshaler.MarshalInterfaceJSON(w.keys[keyI].PubKey())
	if err != nil {
		panic(err)
	}
	return string(bz)
}

func (w *valWorld) executorsNow() []string {
	p, err := w.l2.K.GetParams(w.l2.Ctx)
	if err != nil {
		panic(err)
	}
	return p.BridgeExecutors
}

// hasExecutorPermission probes the permission check with a deposit that is ahead of the
// expected sequence: an executor gets "invalid sequence", anybody else "unauthorized".
func (w *valWorld) hasExecutorPermission(addr string) bool {
	var ok bool
	branchL2(w.l2, func(b *henv.L2) {
		r := b.Deliver(opchildtypes.NewMsgFinalizeTokenDeposit(addr, "l1sender", addr, sdk.NewCoin("l2/abc", math.NewInt(1)), 1000, 5, "uinit", nil))
		ok = r.Err != nil && !errors.Is(r.Err, sdkerrors.ErrUnauthorized)
	})
	return ok
}

// classify the plan against the validator set at the plan height just before EndBlock.
func (w *valWorld) planClass(p c14Plan) string {
	all, err := w.l2.K.GetAllValidators(w.l2.Ctx)
	if err != nil {
		panic(err)
	}
	planOp := w.ops[p.opI].String()
	planKey := w.keys[p.keyI].PubKey().Bytes()
	cls := "clean"
	for _, v := range all {
		pk, _ := v.ConsPubKey()
		sameKey := string(pk.Bytes()) == string(planKey)
		if v.OperatorAddress == planOp && !sameKey {
			return "plan-reuses-operator"
		}
		if v.OperatorAddress != planOp && sameKey {
			cls = "plan-reuses-key"
		}
	}
	return cls
}

// endBlockWithPlan runs the end of a block at which plan p is due and checks C14.
func (w *valWorld) endBlockWithPlan(p c14Plan) error {
	l2 := w.l2
	before := w.executorsNow()
	updates, err := l2.EndBlock()
	if err != nil {
		return fmt.Errorf("block processing failed because of the plan at height %d (%d validators stored, max %d): %w", p.height, w.storedCount(), w.maxVals, err)
	}
	if err := l2.ApplyUpdates(updates); err != nil {
		return fmt.Errorf("the consensus engine rejects the update batch of the plan height %d (%s): %w", p.height, renderUpdates(updates), err)
	}
	// model: everybody leaves, the plan's validator is the only one
	w.bonded = map[string]int{string(w.ops[p.opI]): p.keyI}
	w.keyOf = map[string]int{string(w.ops[p.opI]): p.keyI}
	w.pow = map[string]int64{string(w.ops[p.opI]): 1}
	w.pending, w.zeroed = map[string]int{}, map[string]bool{}
	w.logf("endblock h=%d PLAN(op%d,key%d,%d executors) updates=[%s] -> engine set {%s}", l2.Ctx.BlockHeight(), p.opI, p.keyI, len(p.executors), renderUpdates(updates), henv.RenderPowerMap(l2.MirrorMap()))
	if err := w.invariants(); err != nil {
		return fmt.Errorf("after the plan: %w", err)
	}
	got := w.executorsNow()
	if strings.Join(got, ",") != strings.Join(p.executors, ",") {
		return fmt.Errorf("after the plan the bridge executors are %v, the plan lists %v", got, p.executors)
	}
	inNew := map[string]bool{}
	for _, e := range p.executors {
		inNew[e] = true
		if !w.hasExecutorPermission(e) {
			return fmt.Errorf("new executor %s has no permission after the plan", e)
		}
	}
	for _, e := range before {
		if e != "" && !inNew[e] && w.hasExecutorPermission(e) {
			return fmt.Errorf("old executor %s still has permission after the plan", e)
		}
	}
	return nil
}

func TestC14Rapid(t *testing.T) {
	rec := evid.For("C14")
	runRapid(t, 1000, 40000, func(rt *rapid.T) {
		c := rec.Begin()
		nGen := rapid.IntRange(1, 3).Draw(rt, "genesis")
		maxVals := uint32(rapid.IntRange(nGen, 5).Draw(rt, "max"))
		var gp []int64
		if rapid.IntRange(0, 2).Draw(rt, "genesisPowers") == 0 {
			for j := 0; j < nGen; j++ {
				gp = append(gp, int64(rapid.SampledFrom([]int{1, 3, 10}).Draw(rt, "gpower")))
			}
		}
		valWorldLongOps = rapid.IntRange(0, 3).Draw(rt, "longOperators") == 0
		if valWorldLongOps {
			c.Class("operators-with-32-byte-addresses")
		}
		valWorldSecp = rapid.IntRange(0, 3).Draw(rt, "secpKeys") == 0
		if valWorldSecp {
			c.Class("chain-admitting-secp256k1-consensus-keys")
		}
		w, err := newValWorld(nGen, maxVals, uint32(rapid.SampledFrom([]int{0, 2, 100}).Draw(rt, "retention")), gp...)
		valWorldSecp, valWorldLongOps = false, false
		if err != nil {
			rt.Fatalf("genesis: %v", err)
		}
		l2 := w.l2
		plans := map[uint64]c14Plan{}
		executed, ntPlans := 0, 0
		candExecs := []string{henv.MakeUser("c14-e0").Str, henv.MakeUser("c14-e1").Str, henv.MakeUser("c14-e2").Str, w.executors[0].Str}
		shape := ""
		repeatSteps(rt, 10, func(i int) {
			if err := w.beginBlock(); err != nil {
				rt.Fatalf("C14/C13 violated in block %d: %v\nhistory:\n%s", i, err, w.history())
			}
			h := uint64(l2.Ctx.BlockHeight())
			execBefore := strings.Join(w.executorsNow(), ",")
			n := rapid.IntRange(0, 3).Draw(rt, "nops")
			for j := 0; j < n; j++ {
				switch drawWeighted(rt, "vop", []weighted{{"add", 5}, {"remove", 4}, {"max", 1}, {"plan", 5}, {"badplan", 2}}) {
				case "add":
					if _, err := w.add(rapid.IntRange(0, nValOps-1).Draw(rt, "op"), rapid.IntRange(0, nValKeys-1).Draw(rt, "key")); err != nil {
						rt.Fatalf("C13 violated: %v\nhistory:\n%s", err, w.history())
					}
				case "remove":
					if _, _, err := w.remove(rapid.IntRange(0, nValOps-1).Draw(rt, "op")); err != nil {
						rt.Fatalf("C13 violated: %v\nhistory:\n%s", err, w.history())
					}
				case "max":
					if _, err := w.setParams(uint32(rapid.IntRange(1, 5).Draw(rt, "max")), w.histN); err != nil {
						rt.Fatalf("C13 violated: %v\nhistory:\n%s", err, w.history())
					}
				case "plan":
					ahead := rapid.IntRange(-3, 3).Draw(rt, "ahead") // negative: a plan for a height that has already passed never runs
					if int64(h)+int64(ahead) < 1 {
						ahead = 0
					}
					p := c14Plan{height: uint64(int64(h) + int64(ahead)), opI: rapid.IntRange(0, nValOps-1).Draw(rt, "pop"), keyI: rapid.IntRange(0, nValKeys+1).Draw(rt, "pkey")}
					for k := rapid.IntRange(0, 3).Draw(rt, "nexec"); k > 0; k-- {
						p.executors = append(p.executors, rapid.SampledFrom(candExecs).Draw(rt, "exec"))
					}
					_, dup := plans[p.height]
					err := l2.K.RegisterExecutorChangePlan(uint64(i+1), p.height, w.ops[p.opI].String(), "plan", w.pubKeyJSON(p.keyI), "info", p.executors)
					w.logf("  register plan(height=%d op%d key%d executors=%d) -> %v", p.height, p.opI, p.keyI, len(p.executors), err)
					if (err == nil) == dup {
						rt.Fatalf("C14 violated: registration for height %d (already registered=%v) returned %v\nhistory:\n%s", p.height, dup, err, w.history())
					}
					if err == nil {
						plans[p.height] = p
						if ahead < 0 {
							c.Class("plan-registered-for-a-past-height")
						}
					}
				case "badplan":
					tableBefore := fmt.Sprint(sortedPlanHeights(l2))
					kind := rapid.SampledFrom([]string{"id0", "height0", "badkey", "badval", "badexec", "emptykey"}).Draw(rt, "badkind")
					id, height, val, key, execs := uint64(7), h+50+uint64(j), w.ops[0].String(), w.pubKeyJSON(0), []string{candExecs[0]}
					switch kind {
					case "id0":
						id = 0
					case "height0":
						height = 0
					case "badkey":
						key = `{"@type":"/cosmos.crypto.ed25519.PubKey","key":"not-base64!"}`
					case "emptykey":
						key = ""
					case "badval":
						val = "cosmos1notavaloper"
					case "badexec":
						execs = []string{candExecs[0], "nonsense"}
					}
					err := l2.K.RegisterExecutorChangePlan(id, height, val, "m", key, "i", execs)
					w.logf("  register malformed plan(%s) -> %v", kind, err)
					if err == nil {
						rt.Fatalf("C14 violated: malformed plan (%s) was registered\nhistory:\n%s", kind, w.history())
					}
					if tableBefore != fmt.Sprint(sortedPlanHeights(l2)) {
						rt.Fatalf("C14 violated: rejected registration (%s) changed the plan table\nhistory:\n%s", kind, w.history())
					}
					c.Class("malformed-registration/" + kind)
				}
			}
			if p, due := plans[h]; due {
				cls := w.planClass(p)
				if cls != "clean" {
					// known findings D6/D7: excluded from the generated space (counted), see the probes below
					delete(l2.K.ExecutorChangePlans, h)
					delete(plans, h)
					c.Excluded(cls)
					w.logf("  plan at height %d belongs to known-finding class %s: withdrawn", h, cls)
					due = false
				}
				if due {
					if rapid.IntRange(0, 3).Draw(rt, "optimisticEndBlock") == 0 {
						// the end of the plan's block first runs on a branch that is thrown away, then for real
						branchL2(l2, func(b *henv.L2) { _, _ = b.EndBlock() })
						c.Class("plan-height-executed-on-a-discarded-branch-first")
					}
					nt := len(w.bonded) >= 2 || w.blockOps > 0
					if err := w.endBlockWithPlan(p); err != nil {
						rt.Fatalf("C14 violated at plan height %d: %v\nhistory:\n%s", h, err, w.history())
					}
					executed++
					if nt {
						ntPlans++
					}
					shape += fmt.Sprintf("P%d/%d/%d/%d;", p.opI, p.keyI, len(p.executors), w.blockOps)
					c.Class("plan-executed")
					l2.NextBlock(5 * time.Second)
					return
				}
			}
			if _, err := w.endBlock(); err != nil {
				rt.Fatalf("C13 violated in block %d: %v\nhistory:\n%s", i, err, w.history())
			}
			if got := strings.Join(w.executorsNow(), ","); got != execBefore {
				rt.Fatalf("C14 violated: bridge executors changed from %s to %s in block %d where no plan was due\nhistory:\n%s", execBefore, got, h, w.history())
			}
			l2.NextBlock(5 * time.Second)
		})
		if ntPlans > 0 {
			c.NonTrivial()
			c.Shape(shape)
		}
		c.Classf("plans-executed=%d", minInt(executed, 3))
		c.Sample(func() interface{} { return map[string]interface{}{"history": w.log} })
		c.Done()
	})
}

func sortedPlanHeights(l2 *henv.L2) []uint64 {
	var hs []uint64
	for h := range l2.K.ExecutorChangePlans {
		hs = append(hs, h)
	}
	sort.Slice(hs, func(i, j int) bool { return hs[i] < hs[j] })
	return hs
}

// ---- probes for the known findings (DESIGN §4, D6 and D7) --------------------------------------

// TestC14Known reproduces the two recorded findings with fixed inputs. While a finding still
// reproduces it prints a KNOWN-FINDING-CANDIDATE line (the driver turns it into KNOWN-FINDING
// when listed in KNOWN_FINDINGS.txt, into a VIOLATION otherwise); when it stops reproducing
// nothing is printed.
func TestC14Known(t *testing.T) {
	if cfgShard != 0 {
		return
	}
	rec := evid.For("C14")
	probe := func(class string, opI, keyI int, what string) {
		w, err := newValWorld(2, 5, 0) // validators (op0,key0), (op1,key1)
		if err != nil {
			t.Fatal(err)
		}
		l2 := w.l2
		if err := w.beginBlock(); err != nil {
			t.Fatal(err)
		}
		h := uint64(l2.Ctx.BlockHeight())
		if err := l2.K.RegisterExecutorChangePlan(1, h, w.ops[opI].String(), "plan", w.pubKeyJSON(keyI), "", []string{w.executors[0].Str}); err != nil {
			t.Fatal(err)
		}
		if got := w.planClass(c14Plan{height: h, opI: opI, keyI: keyI}); got != class {
			t.Fatalf("probe for %s classified as %s", class, got)
		}
		err = w.endBlockWithPlan(c14Plan{height: h, opI: opI, keyI: keyI, executors: []string{w.executors[0].Str}})
		if err != nil {
			msg := truncStr(strings.ReplaceAll(err.Error(), "\n", " "), 260)
			fmt.Printf("KNOWN-FINDING-CANDIDATE: property=C14 class=%s %s: %s\n", class, what, msg)
			rec.KnownFinding(class + ": " + msg)
		}
	}
	probe("plan-reuses-operator", 0, 3, "plan names an operator address that already has a validator with another consensus key")
	probe("plan-reuses-key", 3, 1, "plan names a consensus key that is already used by another operator")
	// the same finding with a key whose other operator is not in the consensus engine's set yet (added by
	// the authority earlier in the plan's block). The recorded failure is the lost key index; any other way
	// of failing in this situation (block processing that stops, ...) is a different violation and is
	// reported under a class of its own, which KNOWN_FINDINGS.txt does not list.
	func() {
		w, err := newValWorld(2, 5, 0)
		if err != nil {
			t.Fatal(err)
		}
		l2 := w.l2
		if err := w.beginBlock(); err != nil {
			t.Fatal(err)
		}
		h := uint64(l2.Ctx.BlockHeight())
		if err := l2.K.RegisterExecutorChangePlan(1, h, w.ops[3].String(), "plan", w.pubKeyJSON(2), "", []string{w.executors[0].Str}); err != nil {
			t.Fatal(err)
		}
		if r, err := w.add(2, 2); err != nil || !r.OK() {
			t.Fatalf("probe: adding (op2,key2): %v %v", err, r.Err)
		}
		p := c14Plan{height: h, opI: 3, keyI: 2, executors: []string{w.executors[0].Str}}
		if got := w.planClass(p); got != "plan-reuses-key" {
			t.Fatalf("probe classified as %s", got)
		}
		if err := w.endBlockWithPlan(p); err != nil {
			msg := truncStr(strings.ReplaceAll(err.Error(), "\n", " "), 260)
			class := "plan-reuses-key"
			if !strings.Contains(msg, "consensus-key index") {
				class = "plan-reuses-key-fails-differently"
			}
			fmt.Printf("KNOWN-FINDING-CANDIDATE: property=C14 class=%s plan names a consensus key that the authority gave to another operator earlier in the same block: %s\n", class, msg)
			rec.KnownFinding(class + " (key of a validator added in the plan's block): " + msg)
		}
	}()
}
