package props

import (
	"strings"
	"testing"

	"cosmossdk.io/math"
	cryptotypes "github.com/cosmos/cosmos-sdk/crypto/types"
	sdk "github.com/cosmos/cosmos-sdk/types"
	authtypes "github.com/cosmos/cosmos-sdk/x/auth/types"
	banktypes "github.com/cosmos/cosmos-sdk/x/bank/types"
	"pgregory.net/rapid"

	opchildtypes "github.com/initia-labs/OPinit/x/opchild/types"

	"verifharness/evid"
	"verifharness/henv"
	"verifharness/ref"
)

func TestC09Rapid(t *testing.T) {
	rec := evid.For("C09")
	runRapid(t, 600, 12000, func(rt *rapid.T) {
		c := rec.Begin()
		tc := newTwoChain(tcOpts{nExecutors: 1, otherFirst: rapid.IntRange(0, 1).Draw(rt, "otherFirst"), lateBridgeInfo: rapid.IntRange(0, 3).Draw(rt, "lateBridgeInfo") == 0})
		l2 := tc.l2
		for _, u := range tc.users {
			l2.Fund(u.Addr, coinOf("stake", 1000))
		}
		// a second native token; native tokens may carry ordinary bank metadata (display name, units)
		natives := []string{"stake", "umin"}
		// ... and a native coin whose name is a bridged token's L2 denom with the hash in upper case: another denom
		// for the bank, and not a token that came from L1
		lookAlike := "l2/" + strings.ToUpper(strings.TrimPrefix(tcL2Denom(tc, "uinit"), "l2/"))
		natives = append(natives, lookAlike)
		for _, u := range tc.users {
			l2.Fund(u.Addr, coinOf("umin", 500), coinOf(lookAlike, 300))
		}
		if rapid.Bool().Draw(rt, "nativeMetadata") {
			l2.BK.SetDenomMetaData(l2.Ctx, banktypes.Metadata{Base: "umin", Display: "min", Name: "min", Symbol: "MIN", DenomUnits: []*banktypes.DenomUnit{{Denom: "umin", Exponent: 0}, {Denom: "min", Exponent: 6}}})
			l2.BK.SetDenomMetaData(l2.Ctx, banktypes.Metadata{Base: "stake", Display: "stake", Name: "stake", Symbol: "STAKE", DenomUnits: []*banktypes.DenomUnit{{Denom: "stake", Exponent: 0}}})
			c.Class("native-tokens-with-bank-metadata")
		}
		exec := tc.executors[0].Str
		credited := map[string]math.Int{}  // l2 denom -> sum credited to recipients
		withdrawn := map[string]math.Int{} // l2 denom -> sum of recorded user withdrawals
		baseOf := map[string]string{}      // l2 denom -> first registered base denom
		add := func(m map[string]math.Int, d string, v math.Int) {
			if cur, ok := m[d]; ok {
				m[d] = cur.Add(v)
			} else {
				m[d] = v
			}
		}
		nextL1, nextL2 := uint64(1), uint64(1)
		refunds, userWd, conflict := 0, 0, 0
		shape := ""
		accounts := func() map[string]string {
			m := map[string]string{}
			for _, u := range tc.users {
				m[u.Str] = l2.BK.GetAllBalances(l2.Ctx, u.Addr).String()
			}
			return m
		}
		repeatSteps(rt, 40, func(i int) {
			op := drawWeighted(rt, "op", []weighted{{"deposit", 6}, {"withdraw", 7}, {"transfer", 2}, {"reannounce", 2}, {"discarded", 2}, {"stale-announce", 2}, {"bridge-info", 1}, {"restart", 1}})
			switch op {
			case "deposit", "reannounce":
				var msg *opchildtypes.MsgFinalizeTokenDeposit
				if op == "deposit" {
					to := tc.users[rapid.IntRange(0, 4).Draw(rt, "to")].Str
					if rapid.IntRange(0, 3).Draw(rt, "badto") == 0 {
						to = "bogus-recipient"
					}
					coin := coinOf(rapid.SampledFrom([]string{"uinit", "uusdc"}).Draw(rt, "denom"), int64(rapid.IntRange(0, 100000).Draw(rt, "amt")))
					if rapid.IntRange(0, 7).Draw(rt, "zeroAmount") == 0 {
						coin.Amount = math.ZeroInt() // an account-creation deposit; refunded like any other when it fails
						c.Class("zero-amount-deposit")
					}
					var data []byte
					if hk := rapid.IntRange(0, 13).Draw(rt, "hook"); (hk < 4 || hk >= 10) && to != "bogus-recipient" {
						// hooks signed by the recipient: a withdrawal inside the hook, optionally followed by a failing message
						var rcpt henv.User
						for _, u := range tc.users {
							if u.Str == to {
								rcpt = u
							}
						}
						num, seq := accInfo(l2, rcpt)
						l2d := tcL2Denom(tc, coin.Denom)
						msgs := []sdk.Msg{opchildtypes.NewMsgInitiateTokenWithdrawal(rcpt.Str, "l1-target-of-the-hook", sdk.NewCoin(l2d, math.OneInt()))}
						switch hk {
						case 0:
							msgs = append(msgs, banktypes.NewMsgSend(rcpt.Addr, tc.users[0].Addr, sdk.NewCoins(sdk.NewCoin(l2d, math.NewInt(1<<50))))) // fails
						case 1:
							msgs = append(msgs, banktypes.NewMsgSend(rcpt.Addr, tc.users[0].Addr, sdk.NewCoins(sdk.NewCoin(l2d, math.OneInt())))) // withdrawal is not the last message
						case 10:
							// a long hook: many transfers (five events each) before the withdrawal
							msgs = nil
							for k := rapid.IntRange(14, 40).Draw(rt, "manySends"); k > 0; k-- {
								msgs = append(msgs, banktypes.NewMsgSend(rcpt.Addr, tc.users[0].Addr, sdk.NewCoins(coinOf("stake", 1))))
							}
							msgs = append(msgs, opchildtypes.NewMsgInitiateTokenWithdrawal(rcpt.Str, "l1-target-of-the-hook", sdk.NewCoin(l2d, math.OneInt())))
							c.Class("deposit-with-long-hook-then-withdrawal")
						case 11:
							// the withdrawal is followed by a message no handler exists for
							msgs = append(msgs, &authtypes.MsgUpdateParams{Authority: rcpt.Str, Params: authtypes.DefaultParams()})
							c.Class("deposit-with-hook-withdrawal-then-unroutable-message")
						case 12:
							// the withdrawal is followed by more transfers than the hook's gas allowance pays for
							for k := 0; k < 60; k++ {
								msgs = append(msgs, banktypes.NewMsgSend(rcpt.Addr, tc.users[0].Addr, sdk.NewCoins(coinOf("stake", 1))))
							}
							c.Class("deposit-with-hook-withdrawal-then-out-of-gas")
						case 13:
							// two withdrawals in one hook
							msgs = append(msgs, opchildtypes.NewMsgInitiateTokenWithdrawal(rcpt.Str, "second-l1-target", sdk.NewCoin(l2d, math.OneInt())))
							c.Class("deposit-with-hook-making-two-withdrawals")
						case 2:
							// a single message that writes before it fails: native tokens cannot be withdrawn
							msgs = []sdk.Msg{opchildtypes.NewMsgInitiateTokenWithdrawal(rcpt.Str, "l1-target-of-the-hook", coinOf("stake", 2))}
						}
						data = signTx(l2, msgs, []cryptotypes.PrivKey{rcpt.Priv}, []uint64{num}, []uint64{seq}, henv.L2ChainID)
						c.Class("deposit-with-hook-withdrawal")
					}
					r, p := tc.l1Deposit(tc.users[rapid.IntRange(0, 4).Draw(rt, "from")], to, coin, data)
					if p == nil {
						rt.Fatalf("setup: L1 deposit rejected: %v", r.Err)
					}
					if p.Seq != nextL1 {
						rt.Fatalf("setup: relay out of step")
					}
					msg = relayMsg(exec, p)
				} else {
					// an executor message that names another base denom for an already mapped L2 denom
					// ... or, for a denom that has no mapping yet, names a base denom that is not the one the L2 denom
					// derives from: whatever the first deposit of a denom names stays its base denom
					l2d := rapid.SampledFrom([]string{tcL2Denom(tc, "uinit"), tcL2Denom(tc, "uusdc")}).Draw(rt, "redenom")
					if _, ok := baseOf[l2d]; !ok {
						c.Class("first-deposit-of-a-denom-names-another-base-denom")
					}
					reTo := tc.users[rapid.IntRange(0, 4).Draw(rt, "to")].Str
					if rapid.IntRange(0, 2).Draw(rt, "rebad") == 0 {
						reTo = "bogus-recipient" // the conflicting announcement is refunded
					}
					msg = opchildtypes.NewMsgFinalizeTokenDeposit(exec, tc.users[0].Str, reTo,
						coinOf(l2d, int64(rapid.IntRange(1, 1000).Draw(rt, "amt"))), nextL1, 5, "ufake", nil)
					// keep L1's counter in step with what L2 consumed
					tc.l1Deposit(tc.users[0], tc.users[0].Str, coinOf("uinit", 0), nil)
					conflict++
					c.Class("conflicting-base-denom-announcement")
				}
				supplyBefore := l2.Supply(msg.Amount.Denom)
				r := l2.Deliver(msg)
				if !r.OK() {
					rt.Fatalf("C09 setup: deposit at the expected sequence failed: %v\nhistory:\n%s", r.Err, strings.Join(tc.log, "\n"))
				}
				nextL1++
				if _, ok := baseOf[msg.Amount.Denom]; !ok {
					baseOf[msg.Amount.Denom] = msg.BaseDenom
				}
				// every withdrawal announced by this message: the refund (if any) and withdrawals made by the hook;
				// all of them share the one gap-free L2 sequence
				ws := parseWithdrawalEvents(r.Events)
				refunded := false
				for _, x := range ws {
					if x.Seq != nextL2 {
						rt.Fatalf("C09 violated at step %d: a withdrawal was announced under L2 sequence %d, the next gap-free sequence is %d (announced: %+v)\nhistory:\n%s", i, x.Seq, nextL2, ws, strings.Join(tc.log, "\n"))
					}
					nextL2++
					if x.BaseDenom != baseOf[x.Denom] {
						rt.Fatalf("C09 violated at step %d: withdrawal announced base denom %q, mapping says %q", i, x.BaseDenom, baseOf[x.Denom])
					}
					if x.From == msg.To && x.To == msg.From && x.Denom == msg.Amount.Denom && !refunded {
						refunded = true
						refunds++
						c.Class("refund-withdrawal")
						if !x.Amount.Equal(msg.Amount.Amount) {
							rt.Fatalf("C09 violated at step %d: refund of %s announced %s", i, msg.Amount, x.Amount)
						}
					} else {
						add(withdrawn, x.Denom, x.Amount) // recorded by the hook on behalf of its signer
						userWd++
						c.Class("hook-withdrawal")
					}
				}
				if !refunded {
					add(credited, msg.Amount.Denom, msg.Amount.Amount)
				}
				_ = supplyBefore
				tc.logf("%s(%s to=%s base=%s) -> refunds=%d", op, msg.Amount, short(msg.To), msg.BaseDenom, len(ws))
				shape += op[:1]
			case "restart":
				// the L2 is exported and a new chain started from that genesis (through JSON): supply, mappings and the
				// withdrawal counter go on where they were
				tc.restartL2()
				l2 = tc.l2
				c.Class("genesis-round-trip-inside-history")
			case "bridge-info":
				// the executor registers the bridge info (for the first time, if the L2 started without it)
				if !tc.infoSet {
					c.Class("bridge-info-registered-after-withdrawals-were-recorded")
				}
				tc.registerBridgeInfo()
			case "stale-announce":
				// the executor re-delivers an already processed sequence number, this time naming a denom that has no
				// mapping yet (or a native token) and some base denom: answered as a no-op, which registers nothing
				if nextL1 <= 1 {
					return
				}
				cands := []string{"umin", "stake"}
				for _, d := range []string{tcL2Denom(tc, "uinit"), tcL2Denom(tc, "uusdc")} {
					if _, ok := baseOf[d]; !ok {
						cands = append(cands, d)
					}
				}
				d := rapid.SampledFrom(cands).Draw(rt, "sdenom")
				seq := uint64(rapid.IntRange(1, int(nextL1-1)).Draw(rt, "sseq"))
				digest := l2.Digest()
				r := l2.Deliver(opchildtypes.NewMsgFinalizeTokenDeposit(exec, tc.users[0].Str, tc.users[1].Str, coinOf(d, 7), seq, 5, "ustale", nil))
				tc.logf("stale delivery of sequence %d naming %s base=ustale -> %v", seq, d, r.Err)
				if r.OK() && digest != l2.Digest() {
					rt.Fatalf("C09 violated at step %d: the no-op answer to an already processed sequence changed state\nhistory:\n%s", i, strings.Join(tc.log, "\n"))
				}
				c.Class("stale-delivery-naming-an-unmapped-denom")
			case "discarded":
				// executor and user transactions that run on a branch which is never written (simulation,
				// CheckTx, a transaction that fails later): a deposit announcing a base denom for a denom
				// that has no mapping yet (a bridged denom before its first deposit, or a native token),
				// then lookups and a withdrawal of it. Nothing of it may be visible afterwards.
				cands := []string{"umin", "stake"}
				for _, d := range []string{tcL2Denom(tc, "uinit"), tcL2Denom(tc, "uusdc")} {
					if _, ok := baseOf[d]; !ok {
						cands = append(cands, d)
					}
				}
				d := rapid.SampledFrom(cands).Draw(rt, "bdenom")
				u := tc.users[rapid.IntRange(0, 4).Draw(rt, "bu")]
				digest := l2.Digest()
				branchL2(l2, func(b *henv.L2) {
					r := b.Deliver(opchildtypes.NewMsgFinalizeTokenDeposit(exec, tc.users[0].Str, u.Str, coinOf(d, 50), nextL1, 5, "ubranch", nil))
					b.Q.BaseDenom(b.Ctx, &opchildtypes.QueryBaseDenomRequest{Denom: d})
					r2 := b.Deliver(opchildtypes.NewMsgInitiateTokenWithdrawal(u.Str, "l1-addr", coinOf(d, 1)))
					tc.logf("discarded branch: deposit(%s base=ubranch)=%v withdraw=%v", d, r.Err, r2.Err)
				})
				if digest != l2.Digest() {
					rt.Fatalf("setup: discarded branch changed the state")
				}
				c.Class("discarded-branch-announcing-a-base-denom")
				shape += "x"
			case "transfer":
				from, to := tc.users[rapid.IntRange(0, 4).Draw(rt, "tf")], tc.users[rapid.IntRange(0, 4).Draw(rt, "tt")]
				bal := l2.BK.GetAllBalances(l2.Ctx, from.Addr)
				if len(bal) > 0 {
					co := bal[rapid.IntRange(0, len(bal)-1).Draw(rt, "coin")]
					amt := math.NewInt(int64(rapid.IntRange(0, 100).Draw(rt, "tamt")))
					if amt.GT(co.Amount) {
						amt = co.Amount
					}
					if amt.IsPositive() {
						l2.Deliver(banktypes.NewMsgSend(from.Addr, to.Addr, sdk.NewCoins(sdk.NewCoin(co.Denom, amt))))
					}
				}
			case "withdraw":
				from := tc.users[rapid.IntRange(0, 4).Draw(rt, "wf")]
				denom := rapid.SampledFrom([]string{tcL2Denom(tc, "uinit"), tcL2Denom(tc, "uinit"), tcL2Denom(tc, "uusdc"), "stake", "umin", "l2/unknown", "uinit", lookAlike}).Draw(rt, "wdenom")
				bal := l2.Balance(from.Addr, denom)
				var amt math.Int
				switch rapid.SampledFrom([]string{"part", "part", "all", "over", "zero"}).Draw(rt, "wamt") {
				case "part":
					amt = math.NewInt(int64(rapid.IntRange(1, 5000).Draw(rt, "amt")))
					if amt.GT(bal) && bal.IsPositive() && rapid.Bool().Draw(rt, "clamp") {
						amt = bal
					}
				case "all":
					amt = bal
				case "over":
					amt = bal.AddRaw(1)
				case "zero":
					amt = math.ZeroInt()
				}
				to := rapid.SampledFrom([]string{tc.users[0].Str, tc.users[1].Str, "init1xyz", "any string"}).Draw(rt, "wto")
				msg := opchildtypes.NewMsgInitiateTokenWithdrawal(from.Str, to, sdk.Coin{Denom: denom, Amount: amt})
				before, digest := accounts(), l2.Digest()
				supplyBefore := l2.Supply(denom)
				r := l2.Deliver(msg)
				after := accounts()
				_, bridged := baseOf[denom]
				tc.logf("withdraw(%s %s%s to=%q bridged=%v bal=%s) -> %v", short(from.Str), amt, denom, to, bridged, bal, r.Err)
				if !r.OK() {
					if digest != l2.Digest() {
						rt.Fatalf("C09 violated at step %d: failed withdrawal changed state\nhistory:\n%s", i, strings.Join(tc.log, "\n"))
					}
					if bridged && amt.IsPositive() && amt.LTE(bal) && amt.IsUint64() {
						rt.Fatalf("C09 violated at step %d: withdrawal of %s%s within the balance %s was refused: %v\nhistory:\n%s", i, amt, denom, bal, r.Err, strings.Join(tc.log, "\n"))
					}
					c.Class("withdraw-rejected")
					return
				}
				if !bridged {
					rt.Fatalf("C09 violated at step %d: tokens that did not come from L1 (%s) were withdrawn\nhistory:\n%s", i, denom, strings.Join(tc.log, "\n"))
				}
				resp := r.Resp.(*opchildtypes.MsgInitiateTokenWithdrawalResponse)
				if resp.Sequence != nextL2 {
					rt.Fatalf("C09 violated at step %d: withdrawal got L2 sequence %d, next gap-free sequence is %d\nhistory:\n%s", i, resp.Sequence, nextL2, strings.Join(tc.log, "\n"))
				}
				ws := parseWithdrawalEvents(r.Events)
				if len(ws) != 1 || ws[0].Seq != nextL2 || !ws[0].Amount.Equal(amt) || ws[0].From != from.Str || ws[0].To != to || ws[0].Denom != denom || ws[0].BaseDenom != baseOf[denom] {
					rt.Fatalf("C09 violated at step %d: withdrawal event %+v does not announce (%s -> %q, %s%s, base %s, seq %d)\nhistory:\n%s", i, ws, from.Str, to, amt, denom, baseOf[denom], nextL2, strings.Join(tc.log, "\n"))
				}
				nextL2++
				for a, b := range before {
					if a == from.Str {
						pb, _ := parseCoins(b)
						pa, _ := parseCoins(after[a])
						if !pb.Sub(sdk.NewCoin(denom, amt)).Equal(pa) {
							rt.Fatalf("C09 violated at step %d: signer balance %s -> %s for a withdrawal of %s%s", i, b, after[a], amt, denom)
						}
					} else if after[a] != b {
						rt.Fatalf("C09 violated at step %d: withdrawal by %s changed the balance of %s", i, from.Str, a)
					}
				}
				if !supplyBefore.Sub(l2.Supply(denom)).Equal(amt) {
					rt.Fatalf("C09 violated at step %d: withdrawal of %s burned %s", i, amt, supplyBefore.Sub(l2.Supply(denom)))
				}
				add(withdrawn, denom, amt)
				userWd++
				c.Class("user-withdrawal")
				shape += "w"
			}
			// invariants after every step
			for d, base := range baseOf {
				cr, ok := credited[d]
				if !ok {
					cr = math.ZeroInt()
				}
				wd, ok := withdrawn[d]
				if !ok {
					wd = math.ZeroInt()
				}
				if got := l2.Supply(d); !got.Equal(cr.Sub(wd)) {
					rt.Fatalf("C09 violated after step %d: supply of %s is %s, credited %s - withdrawn %s = %s\nhistory:\n%s", i, d, got, cr, wd, cr.Sub(wd), strings.Join(tc.log, "\n"))
				}
				res, err := l2.Q.BaseDenom(l2.Ctx, &opchildtypes.QueryBaseDenomRequest{Denom: d})
				if err != nil || res.BaseDenom != base {
					rt.Fatalf("C09 violated after step %d: BaseDenom(%s) = %q (err %v), first registered %q\nhistory:\n%s", i, d, res.GetBaseDenom(), err, base, strings.Join(tc.log, "\n"))
				}
			}
			// tokens that never came from L1 have no base denom
			for _, d := range append([]string{tcL2Denom(tc, "uinit"), tcL2Denom(tc, "uusdc"), "l2/unknown"}, natives...) {
				if _, ok := baseOf[d]; ok {
					continue
				}
				if res, err := l2.Q.BaseDenom(l2.Ctx, &opchildtypes.QueryBaseDenomRequest{Denom: d}); err == nil {
					rt.Fatalf("C09 violated after step %d: BaseDenom(%s) = %q although no deposit ever registered that denom\nhistory:\n%s", i, d, res.GetBaseDenom(), strings.Join(tc.log, "\n"))
				}
			}
			q1, _ := l2.Q.NextL2Sequence(l2.Ctx, &opchildtypes.QueryNextL2SequenceRequest{})
			if q1.NextL2Sequence != nextL2 {
				rt.Fatalf("C09 violated after step %d: NextL2Sequence = %d, model %d\nhistory:\n%s", i, q1.NextL2Sequence, nextL2, strings.Join(tc.log, "\n"))
			}
		})
		if refunds > 0 && userWd > 0 && conflict > 0 {
			c.NonTrivial()
			c.Shape(shape)
		}
		c.Sample(func() interface{} { return map[string]interface{}{"history": tc.log} })
		c.Done()
	})
}

func tcL2Denom(tc *twoChain, l1denom string) string {
	return ref.L2Denom(tc.bridgeID, l1denom)
}

var _ = henv.MakeUser
