// Package ref is an independent implementation of OPinit's commitment and identifier
// formats, written from specs/withdrawal_proving.md and specs/l2_output_oracle.md, plus the
// off-chain executor's tree builder / prover. It deliberately shares no code with
// x/ophost/types: SHA3 comes from the sha3 package's streaming API and all byte layouts
// are spelled out here.
package ref

import (
	"bytes"
	"crypto/sha256"
	"encoding/hex"

	"golang.org/x/crypto/sha3"
)

func be64(v uint64) []byte {
	return []byte{byte(v >> 56), byte(v >> 48), byte(v >> 40), byte(v >> 32), byte(v >> 24), byte(v >> 16), byte(v >> 8), byte(v)}
}

func sha3of(parts ...[]byte) [32]byte {
	h := sha3.New256()
	for _, p := range parts {
		h.Write(p)
	}
	var out [32]byte
	copy(out[:], h.Sum(nil))
	return out
}

// Leaf is sha3(sha3(be64(bridge) ‖ be64(seq) ‖ sha3(sender) ‖ sha3(receiver) ‖ sha3(denom) ‖ be64(amount))).
func Leaf(bridgeID, seq uint64, sender, receiver, denom string, amount uint64) [32]byte {
	s := sha3of([]byte(sender))
	r := sha3of([]byte(receiver))
	d := sha3of([]byte(denom))
	inner := sha3of(be64(bridgeID), be64(seq), s[:], r[:], d[:], be64(amount))
	return sha3of(inner[:])
}

// Node is sha3(min(a,b) ‖ max(a,b)) under bytewise lexicographic order.
func Node(a, b []byte) [32]byte {
	if bytes.Compare(a, b) <= 0 {
		return sha3of(a, b)
	}
	return sha3of(b, a)
}

// RootFromProof climbs from a leaf through the proof items.
func RootFromProof(leaf [32]byte, proof [][]byte) [32]byte {
	cur := leaf
	for _, p := range proof {
		cur = Node(cur[:], p)
	}
	return cur
}

// OutputRoot is sha3(version ‖ storageRoot[32] ‖ lastBlockHash[32]).
func OutputRoot(version byte, storageRoot, lastBlockHash []byte) [32]byte {
	return sha3of([]byte{version}, storageRoot[:32], lastBlockHash[:32])
}

// L2Denom is "l2/" + hex(sha3(be64(bridgeID) ‖ l1Denom)).
func L2Denom(bridgeID uint64, l1Denom string) string {
	h := sha3of(be64(bridgeID), []byte(l1Denom))
	return "l2/" + hex.EncodeToString(h[:])
}

// BridgeAddress is the SDK module-derived address: sha256(sha256("module") ‖ "ophost" ‖ 0x00 ‖ be64(id)).
func BridgeAddress(bridgeID uint64) []byte {
	typ := sha256.Sum256([]byte("module"))
	h := sha256.New()
	h.Write(typ[:])
	h.Write([]byte("ophost"))
	h.Write([]byte{0})
	h.Write(be64(bridgeID))
	return h.Sum(nil)
}

// Tree is a withdrawal tree built by the published rule: leaves in sequence order,
// each level pairs neighbours with Node, an odd last node is paired with itself.
type Tree struct {
	Levels [][][32]byte // Levels[0] = leaves
}

// BuildTree builds the tree over leaves (len ≥ 1).
func BuildTree(leaves [][32]byte) *Tree {
	t := &Tree{}
	cur := append([][32]byte{}, leaves...)
	t.Levels = append(t.Levels, cur)
	for len(cur) > 1 {
		var next [][32]byte
		for i := 0; i < len(cur); i += 2 {
			if i+1 < len(cur) {
				next = append(next, Node(cur[i][:], cur[i+1][:]))
			} else {
				next = append(next, Node(cur[i][:], cur[i][:]))
			}
		}
		t.Levels = append(t.Levels, next)
		cur = next
	}
	return t
}

// Root returns the storage root (for a single leaf: the leaf itself).
func (t *Tree) Root() [32]byte { return t.Levels[len(t.Levels)-1][0] }

// Proof returns the sibling path of leaf i; selfPaired reports whether any sibling on
// the path is the node itself (odd level).
func (t *Tree) Proof(i int) (proof [][]byte, selfPaired bool) {
	idx := i
	for l := 0; l < len(t.Levels)-1; l++ {
		level := t.Levels[l]
		sib := idx ^ 1
		if sib >= len(level) {
			sib = idx
			selfPaired = true
		}
		s := level[sib]
		proof = append(proof, append([]byte{}, s[:]...))
		idx /= 2
	}
	return proof, selfPaired
}
