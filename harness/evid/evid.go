// Package evid collects what a run actually explored: case counts, fingerprints of the
// distinct non-trivial cases, class histograms and rendered samples. Each test process
// writes one partial file; the driver merges the partials of all shards into
// /verif/evidence/<id>.json.
package evid

import (
	"encoding/json"
	"fmt"
	"hash/fnv"
	"os"
	"sort"
	"sync"
)

// Rec is the per-property recorder of one process.
type Rec struct {
	mu          sync.Mutex
	Property    string            `json:"property"`
	Evaluations int64             `json:"evaluations"`
	NonTrivial  int64             `json:"nontrivial_total"`
	Prints      map[uint64]bool   `json:"-"`
	PrintList   []uint64          `json:"fingerprints"`
	Classes     map[string]int64  `json:"classes"`
	Samples     []json.RawMessage `json:"samples"`
	NTSamples   []json.RawMessage `json:"nontrivial_samples"`
	Exhaustive  []string          `json:"exhaustive_subspaces"`
	Excluded    map[string]int64  `json:"excluded_by_construction"`
	Known       []string          `json:"known_findings_reproduced"`
	Notes       []string          `json:"notes"`
}

var (
	regMu sync.Mutex
	reg   = map[string]*Rec{}
)

// For returns the recorder of a property.
func For(id string) *Rec {
	regMu.Lock()
	defer regMu.Unlock()
	r, ok := reg[id]
	if !ok {
		r = &Rec{Property: id, Prints: map[uint64]bool{}, Classes: map[string]int64{}, Excluded: map[string]int64{}}
		reg[id] = r
	}
	return r
}

// Case accumulates the description of one generated case; nothing reaches the recorder
// until Done is called, so a failing (or shrinking) case is not counted as explored.
type Case struct {
	r       *Rec
	classes []string
	shape   string
	nt      bool
	sample  func() interface{}
	excl    []string
}

// Begin starts a case.
func (r *Rec) Begin() *Case { return &Case{r: r} }

// Class tags the case with a class label (histogram).
func (c *Case) Class(label string) { c.classes = append(c.classes, label) }

// Classf is Class with formatting.
func (c *Case) Classf(f string, a ...interface{}) { c.Class(fmt.Sprintf(f, a...)) }

// Shape appends to the canonical shape of the case (what "distinct" is judged on).
func (c *Case) Shape(s string) { c.shape += s + "|" }

// NonTrivial marks the case as satisfying the property's non-triviality rule.
func (c *Case) NonTrivial() { c.nt = true }

// IsNonTrivial reports the mark.
func (c *Case) IsNonTrivial() bool { return c.nt }

// Excluded counts an input class carved out of the generator (known finding).
func (c *Case) Excluded(label string) { c.excl = append(c.excl, label) }

// Sample sets a lazy renderer of the case.
func (c *Case) Sample(f func() interface{}) { c.sample = f }

// Done commits the case to the recorder.
func (c *Case) Done() {
	r := c.r
	r.mu.Lock()
	defer r.mu.Unlock()
	r.Evaluations++
	seen := map[string]bool{}
	for _, cl := range c.classes {
		if !seen[cl] {
			r.Classes[cl]++
			seen[cl] = true
		}
	}
	for _, e := range c.excl {
		r.Excluded[e]++
	}
	if c.nt {
		r.NonTrivial++
		h := fnv.New64a()
		h.Write([]byte(c.shape))
		fp := h.Sum64()
		if !r.Prints[fp] {
			r.Prints[fp] = true
		}
	}
	if c.sample != nil {
		if c.nt && len(r.NTSamples) < 3 {
			r.NTSamples = append(r.NTSamples, render(c.sample()))
		} else if !c.nt && len(r.Samples) < 2 {
			r.Samples = append(r.Samples, render(c.sample()))
		}
	}
}

func render(v interface{}) json.RawMessage {
	bz, err := json.Marshal(v)
	if err != nil {
		bz, _ = json.Marshal(fmt.Sprintf("%v", v))
	}
	return bz
}

// ExhaustiveSubspace records that a finite sub-space was enumerated completely.
func (r *Rec) ExhaustiveSubspace(desc string) {
	r.mu.Lock()
	defer r.mu.Unlock()
	r.Exhaustive = append(r.Exhaustive, desc)
}

// KnownFinding records that a listed known finding was reproduced by its probe.
func (r *Rec) KnownFinding(desc string) {
	r.mu.Lock()
	defer r.mu.Unlock()
	r.Known = append(r.Known, desc)
}

// Note attaches a free-text note.
func (r *Rec) Note(s string) {
	r.mu.Lock()
	defer r.mu.Unlock()
	r.Notes = append(r.Notes, s)
}

// Flush writes all recorders of this process to path.
func Flush(path string) error {
	regMu.Lock()
	defer regMu.Unlock()
	var out []*Rec
	ids := make([]string, 0, len(reg))
	for id := range reg {
		ids = append(ids, id)
	}
	sort.Strings(ids)
	for _, id := range ids {
		r := reg[id]
		r.PrintList = r.PrintList[:0]
		for fp := range r.Prints {
			r.PrintList = append(r.PrintList, fp)
		}
		sort.Slice(r.PrintList, func(i, j int) bool { return r.PrintList[i] < r.PrintList[j] })
		out = append(out, r)
	}
	bz, err := json.Marshal(out)
	if err != nil {
		return err
	}
	return os.WriteFile(path, bz, 0o644)
}
