package henv

import (
	"context"
	"fmt"
	"time"

	tmproto "github.com/cometbft/cometbft/proto/tendermint/types"

	"cosmossdk.io/log"
	"cosmossdk.io/math"
	"cosmossdk.io/store"
	"cosmossdk.io/store/metrics"
	storetypes "cosmossdk.io/store/types"

	dbm "github.com/cosmos/cosmos-db"
	"github.com/cosmos/cosmos-sdk/baseapp"
	"github.com/cosmos/cosmos-sdk/runtime"
	sdk "github.com/cosmos/cosmos-sdk/types"
	"github.com/cosmos/cosmos-sdk/types/module"
	"github.com/cosmos/cosmos-sdk/x/auth"
	authcodec "github.com/cosmos/cosmos-sdk/x/auth/codec"
	authkeeper "github.com/cosmos/cosmos-sdk/x/auth/keeper"
	authtypes "github.com/cosmos/cosmos-sdk/x/auth/types"
	"github.com/cosmos/cosmos-sdk/x/bank"
	bankkeeper "github.com/cosmos/cosmos-sdk/x/bank/keeper"
	banktypes "github.com/cosmos/cosmos-sdk/x/bank/types"
	distributiontypes "github.com/cosmos/cosmos-sdk/x/distribution/types"
	govtypes "github.com/cosmos/cosmos-sdk/x/gov/types"
	stakingtypes "github.com/cosmos/cosmos-sdk/x/staking/types"

	ophost "github.com/initia-labs/OPinit/x/ophost"
	ophostkeeper "github.com/initia-labs/OPinit/x/ophost/keeper"
	ophosttypes "github.com/initia-labs/OPinit/x/ophost/types"
	"github.com/initia-labs/OPinit/x/ophost/types/hook"
)

var l1Basics = module.NewBasicManager(
	auth.AppModuleBasic{},
	bank.AppModuleBasic{},
	ophost.AppModuleBasic{},
)

var l1Enc = makeEncodingConfig(l1Basics)

// L1StartTime is the block time of a fresh L1 environment.
var L1StartTime = time.Date(2020, time.April, 22, 12, 0, 0, 0, time.UTC)

const (
	permStoreKey = "ibcperm"
	chanStoreKey = "ibcchan"
)

// L1 is an in-memory chain with the real auth, bank and ophost keepers.
type L1 struct {
	Ctx       sdk.Context
	Keys      map[string]*storetypes.KVStoreKey
	Enc       EncodingConfig
	AK        authkeeper.AccountKeeper
	BK        bankkeeper.BaseKeeper
	K         *ophostkeeper.Keeper
	Q         ophostkeeper.Querier
	Router    *baseapp.MsgServiceRouter
	Perm      *PermKeeper
	Chan      *ChanKeeper
	Authority string
	Minter    string
	// Send is shared by shallow copies of the environment: code that runs inside every bank transfer
	// (the bank keeper's send restriction, the SDK's extension point for token hooks).
	Send *SendHook
}

// SendHook lets a test run code while a bank transfer is executing, as a token hook or a
// contract on the receiving side would. Current is the message being delivered.
type SendHook struct {
	Fn func(ctx sdk.Context, from, to sdk.AccAddress, amt sdk.Coins)
	// Reject, when set, decides whether the bank refuses the transfer (a restriction of the token,
	// a frozen account, ...): a non-nil error is returned by the bank keeper.
	Reject  func(ctx sdk.Context, from, to sdk.AccAddress, amt sdk.Coins) error
	Current sdk.Msg
	active  bool
}

// PermKeeper is a store-backed stand-in for the ibcperm keeper: a failed message rolls it
// back exactly like the real one.
type PermKeeper struct{ key *storetypes.KVStoreKey }

func permK(portID, channelID string) []byte { return []byte(portID + "\x00" + channelID) }

func (p *PermKeeper) IsTaken(ctx context.Context, portID, channelID string) (bool, error) {
	return sdk.UnwrapSDKContext(ctx).KVStore(p.key).Has(permK(portID, channelID)), nil
}

func (p *PermKeeper) SetAdmin(ctx context.Context, portID, channelID string, admin sdk.AccAddress) error {
	sdk.UnwrapSDKContext(ctx).KVStore(p.key).Set(permK(portID, channelID), admin)
	return nil
}

func (p *PermKeeper) HasAdminPermission(ctx context.Context, portID, channelID string, admin sdk.AccAddress) (bool, error) {
	bz := sdk.UnwrapSDKContext(ctx).KVStore(p.key).Get(permK(portID, channelID))
	return bz != nil && sdk.AccAddress(bz).Equals(admin), nil
}

// Admin returns the admin of a channel ("" when none).
func (p *PermKeeper) Admin(ctx sdk.Context, portID, channelID string) string {
	bz := ctx.KVStore(p.key).Get(permK(portID, channelID))
	if bz == nil {
		return ""
	}
	return sdk.AccAddress(bz).String()
}

// Table returns the whole admin table keyed by "port\x00channel".
func (p *PermKeeper) Table(ctx sdk.Context) map[string]string {
	out := map[string]string{}
	it := ctx.KVStore(p.key).Iterator(nil, nil)
	defer it.Close()
	for ; it.Valid(); it.Next() {
		out[string(it.Key())] = sdk.AccAddress(it.Value()).String()
	}
	return out
}

// ChanKeeper is a fixture channel keeper: next send sequence per (port, channel).
type ChanKeeper struct{ key *storetypes.KVStoreKey }

func (c *ChanKeeper) GetNextSequenceSend(ctx sdk.Context, portID, channelID string) (uint64, bool) {
	bz := ctx.KVStore(c.key).Get(permK(portID, channelID))
	if bz == nil {
		return 0, false
	}
	return sdk.BigEndianToUint64(bz), true
}

func (c *ChanKeeper) Set(ctx sdk.Context, portID, channelID string, seq uint64) {
	ctx.KVStore(c.key).Set(permK(portID, channelID), sdk.Uint64ToBigEndian(seq))
}

// poolKeeper moves the registration fee for real (the repository's mock only counts it).
type poolKeeper struct{ bk bankkeeper.BaseKeeper }

func (p poolKeeper) FundCommunityPool(ctx context.Context, amount sdk.Coins, sender sdk.AccAddress) error {
	return p.bk.SendCoinsFromAccountToModule(ctx, sender, distributiontypes.ModuleName, amount)
}

// L1Options tunes the environment.
type L1Options struct {
	// NoHook replaces the real hook.BridgeHook by an empty hook list.
	NoHook bool
}

// NewL1 builds a fresh L1 environment.
func NewL1(opt L1Options) *L1 {
	db := dbm.NewMemDB()
	keys := storetypes.NewKVStoreKeys(authtypes.StoreKey, banktypes.StoreKey, ophosttypes.StoreKey, permStoreKey, chanStoreKey)
	ms := store.NewCommitMultiStore(db, log.NewNopLogger(), metrics.NewNoOpMetrics())
	for _, v := range keys {
		ms.MountStoreWithDB(v, storetypes.StoreTypeIAVL, db)
	}
	if err := ms.LoadLatestVersion(); err != nil {
		panic(err)
	}
	ctx := sdk.NewContext(ms, tmproto.Header{Height: 100, Time: L1StartTime, ChainID: "l1-chain"}, false, log.NewNopLogger())

	enc := l1Enc
	appCodec := enc.Marshaler
	maccPerms := map[string][]string{
		authtypes.FeeCollectorName:     nil,
		distributiontypes.ModuleName:   nil,
		stakingtypes.BondedPoolName:    {authtypes.Burner, authtypes.Staking},
		stakingtypes.NotBondedPoolName: {authtypes.Burner, authtypes.Staking},
		ophosttypes.ModuleName:         {authtypes.Burner, authtypes.Minter},
		authtypes.Minter:               {authtypes.Minter, authtypes.Burner},
	}
	authority := authtypes.NewModuleAddress(govtypes.ModuleName).String()
	ak := authkeeper.NewAccountKeeper(
		appCodec,
		runtime.NewKVStoreService(keys[authtypes.StoreKey]),
		authtypes.ProtoBaseAccount,
		maccPerms,
		authcodec.NewBech32Codec(sdk.GetConfig().GetBech32AccountAddrPrefix()),
		sdk.GetConfig().GetBech32AccountAddrPrefix(),
		authority,
	)
	blocked := map[string]bool{}
	for acc := range maccPerms {
		blocked[authtypes.NewModuleAddress(acc).String()] = true
	}
	bk := bankkeeper.NewBaseKeeper(appCodec, runtime.NewKVStoreService(keys[banktypes.StoreKey]), ak, blocked, authority, ctx.Logger())
	if err := bk.SetParams(ctx, banktypes.DefaultParams()); err != nil {
		panic(err)
	}

	sendHook := &SendHook{}
	bk.AppendSendRestriction(func(c context.Context, from, to sdk.AccAddress, amt sdk.Coins) (sdk.AccAddress, error) {
		if sendHook.Fn != nil && !sendHook.active {
			sendHook.active = true // the hook's own transfers do not recurse into the hook
			defer func() { sendHook.active = false }()
			sendHook.Fn(sdk.UnwrapSDKContext(c), from, to, amt)
		}
		if sendHook.Reject != nil {
			if err := sendHook.Reject(sdk.UnwrapSDKContext(c), from, to, amt); err != nil {
				return to, err
			}
		}
		return to, nil
	})

	router := baseapp.NewMsgServiceRouter()
	router.SetInterfaceRegistry(enc.InterfaceRegistry)
	banktypes.RegisterMsgServer(router, bankkeeper.NewMsgServerImpl(bk))

	perm := &PermKeeper{key: keys[permStoreKey]}
	ch := &ChanKeeper{key: keys[chanStoreKey]}
	// wired the way an application wires it: the IBC permission hook inside the composite hook list
	var bh ophosttypes.BridgeHook = ophosttypes.NewBridgeHooks(hook.NewBridgeHook(ch, perm, ak.AddressCodec()))
	if opt.NoHook {
		bh = ophosttypes.NewBridgeHooks()
	}
	k := ophostkeeper.NewKeeper(appCodec, runtime.NewKVStoreService(keys[ophosttypes.StoreKey]), ak, bk, poolKeeper{bk}, bh, authority)
	if err := k.SetParams(ctx, ophosttypes.DefaultParams()); err != nil {
		panic(err)
	}
	ophosttypes.RegisterMsgServer(router, ophostkeeper.NewMsgServerImpl(*k))

	return &L1{
		Ctx: ctx, Keys: keys, Enc: enc, AK: ak, BK: bk, K: k, Q: ophostkeeper.NewQuerier(*k),
		Router: router, Perm: perm, Chan: ch, Authority: authority, Minter: authtypes.Minter, Send: sendHook,
	}
}

// Fund mints coins to an address (outside any message; events discarded).
func (e *L1) Fund(addr sdk.AccAddress, coins ...sdk.Coin) {
	ctx := e.Ctx.WithEventManager(sdk.NewEventManager())
	cs := sdk.NewCoins(coins...)
	if err := e.BK.MintCoins(ctx, e.Minter, cs); err != nil {
		panic(err)
	}
	if err := e.BK.SendCoinsFromModuleToAccount(ctx, e.Minter, addr, cs); err != nil {
		panic(err)
	}
}

// Deliver runs one message as one transaction.
func (e *L1) Deliver(msg sdk.Msg) Result {
	prev := e.Send.Current
	e.Send.Current = msg
	defer func() { e.Send.Current = prev }()
	return deliver(e.Ctx, e.Router, WireCopy(e.Enc.Marshaler, msg))
}

// DeliverDirect hands the caller's own message value to the handler (no encode/decode round trip):
// for checks about what a handler does with the memory it is given.
func (e *L1) DeliverDirect(msg sdk.Msg) Result {
	prev := e.Send.Current
	e.Send.Current = msg
	defer func() { e.Send.Current = prev }()
	return deliver(e.Ctx, e.Router, msg)
}

// Nested runs msg from inside a running message (on ctx, the context the running message
// sees), the way a sub-message of a contract does: on a branch that is written on success.
func (e *L1) Nested(ctx sdk.Context, msg sdk.Msg) (err error) {
	defer func() {
		if r := recover(); r != nil {
			err = fmt.Errorf("panic: %v", r)
		}
	}()
	h := e.Router.Handler(msg)
	if h == nil {
		return fmt.Errorf("unroutable message")
	}
	cc, write := ctx.CacheContext()
	if _, err = h(cc, msg); err != nil {
		return err
	}
	write()
	return nil
}

// Advance moves to a later block: height+1, time+d.
func (e *L1) Advance(d time.Duration) {
	if d < 0 {
		panic("harness bug: block time must not decrease")
	}
	e.AdvanceTo(e.Ctx.BlockTime().Add(d))
}

// AdvanceTo moves to a later block at time t (ignored if t is before the current time).
func (e *L1) AdvanceTo(t time.Time) {
	if t.Before(e.Ctx.BlockTime()) {
		t = e.Ctx.BlockTime()
	}
	e.Ctx = e.Ctx.WithBlockHeight(e.Ctx.BlockHeight() + 1).WithBlockTime(t)
}

// Dump returns the raw content of every store.
func (e *L1) Dump() []KV { return dumpStores(e.Ctx, e.Keys, nil) }

// Digest hashes the raw content of every store.
func (e *L1) Digest() string { return DigestKVs(e.Dump()) }

// Balance returns the balance of addr in denom.
func (e *L1) Balance(addr sdk.AccAddress, denom string) math.Int {
	return e.BK.GetBalance(e.Ctx, addr, denom).Amount
}

// DefaultBridgeConfig returns a valid config.
func DefaultBridgeConfig(proposer, challenger string, period time.Duration) ophosttypes.BridgeConfig {
	return ophosttypes.BridgeConfig{
		Challenger:            challenger,
		Proposer:              proposer,
		SubmissionInterval:    time.Second * 10,
		FinalizationPeriod:    period,
		SubmissionStartHeight: 1,
		Metadata:              []byte{1, 2, 3},
		BatchInfo:             ophosttypes.BatchInfo{Submitter: proposer, ChainType: ophosttypes.BatchInfo_CHAIN_TYPE_INITIA},
	}
}

// BridgeDigest renders everything stored under one bridge id, for frame conditions.
func (e *L1) BridgeDigest(id uint64, hashes [][32]byte) string {
	ctx := e.Ctx
	cfg, err := e.K.GetBridgeConfig(ctx, id)
	s := fmt.Sprintf("cfg=%v/%v;", cfg.String(), err)
	seq, _ := e.K.GetNextL1Sequence(ctx, id)
	noi, _ := e.K.GetNextOutputIndex(ctx, id)
	s += fmt.Sprintf("seq=%d;noi=%d;", seq, noi)
	_ = e.K.IterateTokenPair(ctx, id, func(_ uint64, tp ophosttypes.TokenPair) (bool, error) {
		s += "tp=" + tp.L1Denom + ">" + tp.L2Denom + ";"
		return false, nil
	})
	res, err := e.Q.OutputProposals(ctx, &ophosttypes.QueryOutputProposalsRequest{BridgeId: id})
	if err == nil {
		for _, o := range res.OutputProposals {
			s += fmt.Sprintf("out=%d:%x:%d:%d:%d;", o.OutputIndex, o.OutputProposal.OutputRoot, o.OutputProposal.L1BlockNumber, o.OutputProposal.L1BlockTime.UnixNano(), o.OutputProposal.L2BlockNumber)
		}
	}
	bis, _ := e.K.GetAllBatchInfos(ctx, id)
	for _, bi := range bis {
		s += "bi=" + bi.String() + ";"
	}
	for _, h := range hashes {
		ok, _ := e.K.HasProvenWithdrawal(ctx, id, h)
		if ok {
			s += fmt.Sprintf("claimed=%x;", h[:4])
		}
	}
	_ = e.K.IterateProvenWithdrawals(ctx, id, func(_ uint64, h [32]byte) (bool, error) {
		s += fmt.Sprintf("pw=%x;", h[:6])
		return false, nil
	})
	s += "escrow=" + e.BK.GetAllBalances(ctx, ophosttypes.BridgeAddress(id)).String()
	return s
}
