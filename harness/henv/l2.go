package henv

import (
	"context"
	"fmt"
	"sort"
	"time"

	abci "github.com/cometbft/cometbft/abci/types"
	tmproto "github.com/cometbft/cometbft/proto/tendermint/types"
	cmttypes "github.com/cometbft/cometbft/types"

	"cosmossdk.io/log"
	"cosmossdk.io/math"
	"cosmossdk.io/store"
	"cosmossdk.io/store/metrics"
	storetypes "cosmossdk.io/store/types"

	dbm "github.com/cosmos/cosmos-db"
	"github.com/cosmos/cosmos-sdk/baseapp"
	"github.com/cosmos/cosmos-sdk/runtime"
	sdk "github.com/cosmos/cosmos-sdk/types"
	"github.com/cosmos/cosmos-sdk/types/module"
	"github.com/cosmos/cosmos-sdk/x/auth"
	authante "github.com/cosmos/cosmos-sdk/x/auth/ante"
	authcodec "github.com/cosmos/cosmos-sdk/x/auth/codec"
	authkeeper "github.com/cosmos/cosmos-sdk/x/auth/keeper"
	authtypes "github.com/cosmos/cosmos-sdk/x/auth/types"
	"github.com/cosmos/cosmos-sdk/x/bank"
	bankkeeper "github.com/cosmos/cosmos-sdk/x/bank/keeper"
	banktypes "github.com/cosmos/cosmos-sdk/x/bank/types"
	distributiontypes "github.com/cosmos/cosmos-sdk/x/distribution/types"
	stakingtypes "github.com/cosmos/cosmos-sdk/x/staking/types"

	opchild "github.com/initia-labs/OPinit/x/opchild"
	opchildkeeper "github.com/initia-labs/OPinit/x/opchild/keeper"
	opchildtypes "github.com/initia-labs/OPinit/x/opchild/types"
	oraclekeeper "github.com/skip-mev/connect/v2/x/oracle/keeper"
	oracletypes "github.com/skip-mev/connect/v2/x/oracle/types"
)

var l2Basics = module.NewBasicManager(
	auth.AppModuleBasic{},
	bank.AppModuleBasic{},
	opchild.AppModuleBasic{},
)

var l2Enc = makeEncodingConfig(l2Basics)

// L2StartTime is the block time of a fresh L2 environment.
var L2StartTime = time.Date(2021, time.January, 1, 0, 0, 0, 0, time.UTC)

// L2ChainID is the chain id hook transactions must be signed for.
const L2ChainID = "l2-chain"

// L2 is an in-memory chain with the real auth, bank, connect-oracle and opchild keepers.
type L2 struct {
	Ctx       sdk.Context
	Keys      map[string]*storetypes.KVStoreKey
	Enc       EncodingConfig
	AK        authkeeper.AccountKeeper
	BK        bankkeeper.BaseKeeper
	OK        *oraclekeeper.Keeper
	K         *opchildkeeper.Keeper
	Msg       *opchildkeeper.MsgServer
	Q         opchildtypes.QueryServer
	Router    *baseapp.MsgServiceRouter
	Authority string // opchild module account: signer of validator/param messages
	Minter    string
	Fault     *Fault

	// Mirror is the validator set a consensus engine would hold after applying every
	// update batch the chain has returned so far (nil until InitValidators was called).
	Mirror *cmttypes.ValidatorSet
}

// L2Options tunes the environment.
type L2Options struct {
	Admin     string
	Executors []string
	// WithFault wraps the bank and account keepers handed to opchild by fault injectors.
	WithFault bool
	// GasLimit > 0 gives every delivered message a finite gas meter of that size.
	GasLimit uint64
	// FromGenesis starts the chain the way a real one starts: through InitGenesis with the default
	// genesis state (sequence counters stored explicitly) instead of an empty store with parameters.
	FromGenesis bool
}

// NewL2 builds a fresh L2 environment.
func NewL2(opt L2Options) *L2 {
	db := dbm.NewMemDB()
	keys := storetypes.NewKVStoreKeys(authtypes.StoreKey, banktypes.StoreKey, opchildtypes.StoreKey, oracletypes.StoreKey)
	ms := store.NewCommitMultiStore(db, log.NewNopLogger(), metrics.NewNoOpMetrics())
	for _, v := range keys {
		ms.MountStoreWithDB(v, storetypes.StoreTypeIAVL, db)
	}
	if err := ms.LoadLatestVersion(); err != nil {
		panic(err)
	}
	ctx := sdk.NewContext(ms, tmproto.Header{Height: 1, Time: L2StartTime, ChainID: L2ChainID}, false, log.NewNopLogger())

	enc := l2Enc
	appCodec := enc.Marshaler
	maccPerms := map[string][]string{
		authtypes.FeeCollectorName:     nil,
		distributiontypes.ModuleName:   nil,
		stakingtypes.BondedPoolName:    {authtypes.Burner, authtypes.Staking},
		stakingtypes.NotBondedPoolName: {authtypes.Burner, authtypes.Staking},
		opchildtypes.ModuleName:        {authtypes.Burner, authtypes.Minter},
		authtypes.Minter:               {authtypes.Minter, authtypes.Burner},
	}
	authority := authtypes.NewModuleAddress(opchildtypes.ModuleName).String()
	ak := authkeeper.NewAccountKeeper(
		appCodec,
		runtime.NewKVStoreService(keys[authtypes.StoreKey]),
		authtypes.ProtoBaseAccount,
		maccPerms,
		authcodec.NewBech32Codec(sdk.GetConfig().GetBech32AccountAddrPrefix()),
		sdk.GetConfig().GetBech32AccountAddrPrefix(),
		authority,
	)
	if err := ak.Params.Set(ctx, authtypes.DefaultParams()); err != nil {
		panic(err)
	}
	blocked := map[string]bool{}
	for acc := range maccPerms {
		blocked[authtypes.NewModuleAddress(acc).String()] = true
	}
	bk := bankkeeper.NewBaseKeeper(appCodec, runtime.NewKVStoreService(keys[banktypes.StoreKey]), ak, blocked, authority, ctx.Logger())
	if err := bk.SetParams(ctx, banktypes.DefaultParams()); err != nil {
		panic(err)
	}

	router := baseapp.NewMsgServiceRouter()
	router.SetInterfaceRegistry(enc.InterfaceRegistry)
	banktypes.RegisterMsgServer(router, bankkeeper.NewMsgServerImpl(bk))

	ok := oraclekeeper.NewKeeper(runtime.NewKVStoreService(keys[oracletypes.StoreKey]), appCodec, nil, authtypes.NewModuleAddress(opchildtypes.ModuleName))

	var childBank opchildtypes.BankKeeper = bk
	var childAcc opchildtypes.AccountKeeper = ak
	var fault *Fault
	if opt.WithFault {
		fault = &Fault{}
		childBank = &faultBank{BaseKeeper: bk, f: fault}
		childAcc = &faultAcc{AccountKeeper: ak, f: fault}
	}

	k := opchildkeeper.NewKeeper(
		appCodec,
		runtime.NewKVStoreService(keys[opchildtypes.StoreKey]),
		childAcc,
		childBank,
		&ok,
		sdk.ChainAnteDecorators(
			authante.NewSetPubKeyDecorator(ak),
			authante.NewValidateSigCountDecorator(ak),
			authante.NewSigGasConsumeDecorator(ak, authante.DefaultSigVerificationGasConsumer),
			authante.NewSigVerificationDecorator(ak, enc.TxConfig.SignModeHandler()),
			authante.NewIncrementSequenceDecorator(ak),
		),
		enc.TxConfig.TxDecoder(),
		router,
		authority,
		authcodec.NewBech32Codec(sdk.GetConfig().GetBech32AccountAddrPrefix()),
		authcodec.NewBech32Codec(sdk.GetConfig().GetBech32ValidatorAddrPrefix()),
		authcodec.NewBech32Codec(sdk.GetConfig().GetBech32ConsensusAddrPrefix()),
		ctx.Logger(),
	)
	params := opchildtypes.DefaultParams()
	params.Admin = opt.Admin
	params.BridgeExecutors = opt.Executors
	if err := k.SetParams(ctx, params); err != nil {
		panic(err)
	}
	if opt.FromGenesis {
		gs := opchildtypes.DefaultGenesisState()
		gs.Params = params
		k.InitGenesis(ctx, gs)
	}
	ms2 := opchildkeeper.NewMsgServerImpl(k)
	opchildtypes.RegisterMsgServer(router, ms2)

	if opt.GasLimit > 0 {
		ctx = ctx.WithGasMeter(storetypes.NewGasMeter(opt.GasLimit))
	}

	return &L2{
		Ctx: ctx, Keys: keys, Enc: enc, AK: ak, BK: bk, OK: &ok, K: k, Msg: ms2, Q: opchildkeeper.NewQuerier(k),
		Router: router, Authority: authority, Minter: authtypes.Minter, Fault: fault,
	}
}

// Fund mints coins to an address (outside any message; events discarded).
func (e *L2) Fund(addr sdk.AccAddress, coins ...sdk.Coin) {
	ctx := e.Ctx.WithEventManager(sdk.NewEventManager()).WithGasMeter(storetypes.NewInfiniteGasMeter())
	cs := sdk.NewCoins(coins...)
	if err := e.BK.MintCoins(ctx, e.Minter, cs); err != nil {
		panic(err)
	}
	if err := e.BK.SendCoinsFromModuleToAccount(ctx, e.Minter, addr, cs); err != nil {
		panic(err)
	}
}

// FundModule mints coins into a module account (e.g. the fee collector).
func (e *L2) FundModule(module string, coins ...sdk.Coin) {
	ctx := e.Ctx.WithEventManager(sdk.NewEventManager()).WithGasMeter(storetypes.NewInfiniteGasMeter())
	cs := sdk.NewCoins(coins...)
	if err := e.BK.MintCoins(ctx, e.Minter, cs); err != nil {
		panic(err)
	}
	if err := e.BK.SendCoinsFromModuleToModule(ctx, e.Minter, module, cs); err != nil {
		panic(err)
	}
}

// Deliver runs one message as one transaction.
func (e *L2) Deliver(msg sdk.Msg) Result {
	return deliver(e.Ctx, e.Router, WireCopy(e.Enc.Marshaler, msg))
}

// DeliverWithGas runs one message under a fresh finite gas meter.
func (e *L2) DeliverWithGas(msg sdk.Msg, limit uint64) Result {
	ctx := e.Ctx.WithGasMeter(storetypes.NewGasMeter(limit))
	return deliver(ctx, e.Router, WireCopy(e.Enc.Marshaler, msg))
}

// HandleInPlace runs the handler of msg directly on e.Ctx (no branch of its own) under a gas
// limit, the way a calling module invokes a message server; a panic is recovered and reported.
// What the handler wrote before it returned or panicked stays in e.Ctx for inspection.
func (e *L2) HandleInPlace(msg sdk.Msg, limit uint64) (res Result) {
	ctx := e.Ctx.WithGasMeter(storetypes.NewGasMeter(limit)).WithEventManager(sdk.NewEventManager())
	defer func() {
		if r := recover(); r != nil {
			res = Result{Panic: r, Err: fmt.Errorf("panic: %v", r)}
		}
		res.Gas = ctx.GasMeter().GasConsumedToLimit()
	}()
	h := e.Router.Handler(msg)
	if h == nil {
		return Result{Err: fmt.Errorf("unroutable message")}
	}
	if _, err := h(ctx, msg); err != nil {
		return Result{Err: err}
	}
	return Result{}
}

// Dump returns the raw content of every store.
func (e *L2) Dump() []KV { return dumpStores(e.Ctx, e.Keys, nil) }

// Digest hashes the raw content of every store.
func (e *L2) Digest() string { return DigestKVs(e.Dump()) }

// Balance returns the balance of addr in denom.
func (e *L2) Balance(addr sdk.AccAddress, denom string) math.Int {
	return e.BK.GetBalance(e.Ctx, addr, denom).Amount
}

// Supply returns the total supply of denom.
func (e *L2) Supply(denom string) math.Int { return e.BK.GetSupply(e.Ctx, denom).Amount }

// ---- block driver ---------------------------------------------------------------------

// ApplyUpdates feeds one batch of validator updates to the mirror validator set, exactly
// as CometBFT does (PB2TM conversion, then UpdateWithChangeSet).
func (e *L2) ApplyUpdates(updates []abci.ValidatorUpdate) error {
	if len(updates) == 0 {
		return nil
	}
	vals, err := cmttypes.PB2TM.ValidatorUpdates(updates)
	if err != nil {
		return fmt.Errorf("PB2TM: %w", err)
	}
	if e.Mirror == nil {
		// initial set: CometBFT builds it with NewValidatorSet, which panics on bad input
		for _, v := range vals {
			if v.VotingPower <= 0 {
				return fmt.Errorf("initial validator with power %d", v.VotingPower)
			}
		}
		seen := map[string]bool{}
		for _, v := range vals {
			if seen[string(v.Address)] {
				return fmt.Errorf("duplicate initial validator %X", v.Address)
			}
			seen[string(v.Address)] = true
		}
		e.Mirror = cmttypes.NewValidatorSet(vals)
		return nil
	}
	return e.Mirror.UpdateWithChangeSet(vals)
}

// MirrorMap renders the mirror as address->power.
func (e *L2) MirrorMap() map[string]int64 {
	out := map[string]int64{}
	if e.Mirror == nil {
		return out
	}
	for _, v := range e.Mirror.Validators {
		out[string(v.Address)] = v.VotingPower
	}
	return out
}

// BeginBlock runs the module's BeginBlocker for the current height.
func (e *L2) BeginBlock() (err error) {
	defer func() {
		if r := recover(); r != nil {
			err = fmt.Errorf("BeginBlocker panic: %v", r)
		}
	}()
	return opchild.BeginBlocker(e.Ctx.WithEventManager(sdk.NewEventManager()), e.K)
}

// EndBlock runs the module's EndBlocker (on a cache store that is written only on success,
// like FinalizeBlock would leave the chain halted otherwise) and returns the updates.
func (e *L2) EndBlock() (updates []abci.ValidatorUpdate, err error) {
	defer func() {
		if r := recover(); r != nil {
			err = fmt.Errorf("EndBlocker panic: %v", r)
		}
	}()
	cctx, write := e.Ctx.CacheContext()
	updates, err = opchild.EndBlocker(cctx.WithEventManager(sdk.NewEventManager()), e.K)
	if err == nil {
		write()
	}
	return updates, err
}

// NextBlock moves to height+1, time+d (does not call Begin/EndBlock).
func (e *L2) NextBlock(d time.Duration) {
	e.Ctx = e.Ctx.WithBlockHeight(e.Ctx.BlockHeight() + 1).WithBlockTime(e.Ctx.BlockTime().Add(d))
	hdr := e.Ctx.BlockHeader()
	hdr.Height = e.Ctx.BlockHeight()
	hdr.Time = e.Ctx.BlockTime()
	e.Ctx = e.Ctx.WithBlockHeader(hdr)
}

// StateValidators returns (cons address -> power) of stored validators with power > 0.
func (e *L2) StateValidators() (pos map[string]int64, all []opchildtypes.Validator, err error) {
	all, err = e.K.GetAllValidators(e.Ctx)
	if err != nil {
		return nil, nil, err
	}
	pos = map[string]int64{}
	for _, v := range all {
		if v.ConsPower > 0 {
			ca, err := v.GetConsAddr()
			if err != nil {
				return nil, nil, err
			}
			pos[string(ca)] = v.ConsPower
		}
	}
	return pos, all, nil
}

func sortedKeys(m map[string]int64) []string {
	ks := make([]string, 0, len(m))
	for k := range m {
		ks = append(ks, k)
	}
	sort.Strings(ks)
	return ks
}

// RenderPowerMap renders address->power deterministically.
func RenderPowerMap(m map[string]int64) string {
	s := ""
	for _, k := range sortedKeys(m) {
		s += fmt.Sprintf("%X:%d ", k[:4], m[k])
	}
	return s
}

// ---- fault injection --------------------------------------------------------------------

// Fault counts the bank/account keeper calls opchild makes and fails or panics at the
// Trigger-th one (1-based; 0 = never).
type Fault struct {
	Calls   int
	Trigger int
	Panic   bool
	// After: the triggering call is carried out first and the panic follows it (a keeper that fails
	// after it has written, e.g. an overflow check at the end of MintCoins)
	After bool
	Log   []string
	Fired string
}

func (f *Fault) Reset(trigger int, panicMode bool) {
	f.Calls, f.Trigger, f.Panic, f.After, f.Log, f.Fired = 0, trigger, panicMode, false, nil, ""
}

// ResetAfter arms a panic that follows the trigger-th keeper call.
func (f *Fault) ResetAfter(trigger int) {
	f.Reset(trigger, true)
	f.After = true
}

var errInjected = fmt.Errorf("injected fault")

// wrap counts the call and, when it is the trigger, injects the fault: an error or a panic instead of
// the call, or (After) a panic once the call has been carried out.
func (f *Fault) wrap(name string, canErr bool, call func() error) error {
	f.Calls++
	f.Log = append(f.Log, name)
	if f.Trigger != 0 && f.Calls == f.Trigger {
		f.Fired = name
		if f.After {
			_ = call()
			panic("injected panic after " + name)
		}
		if f.Panic || !canErr {
			panic("injected panic at " + name)
		}
		return errInjected
	}
	return call()
}

type faultBank struct {
	bankkeeper.BaseKeeper
	f *Fault
}

func (b *faultBank) SendCoins(ctx context.Context, from, to sdk.AccAddress, amt sdk.Coins) error {
	return b.f.wrap("bank.SendCoins", true, func() error { return b.BaseKeeper.SendCoins(ctx, from, to, amt) })
}
func (b *faultBank) SendCoinsFromModuleToAccount(ctx context.Context, m string, to sdk.AccAddress, amt sdk.Coins) error {
	return b.f.wrap("bank.SendCoinsFromModuleToAccount", true, func() error { return b.BaseKeeper.SendCoinsFromModuleToAccount(ctx, m, to, amt) })
}
func (b *faultBank) SendCoinsFromAccountToModule(ctx context.Context, from sdk.AccAddress, m string, amt sdk.Coins) error {
	return b.f.wrap("bank.SendCoinsFromAccountToModule", true, func() error { return b.BaseKeeper.SendCoinsFromAccountToModule(ctx, from, m, amt) })
}
func (b *faultBank) MintCoins(ctx context.Context, m string, amt sdk.Coins) error {
	return b.f.wrap("bank.MintCoins", true, func() error { return b.BaseKeeper.MintCoins(ctx, m, amt) })
}
func (b *faultBank) BurnCoins(ctx context.Context, m string, amt sdk.Coins) error {
	return b.f.wrap("bank.BurnCoins", true, func() error { return b.BaseKeeper.BurnCoins(ctx, m, amt) })
}
func (b *faultBank) HasDenomMetaData(ctx context.Context, denom string) (has bool) {
	_ = b.f.wrap("bank.HasDenomMetaData", false, func() error { has = b.BaseKeeper.HasDenomMetaData(ctx, denom); return nil })
	return has
}
func (b *faultBank) SetDenomMetaData(ctx context.Context, md banktypes.Metadata) {
	_ = b.f.wrap("bank.SetDenomMetaData", false, func() error { b.BaseKeeper.SetDenomMetaData(ctx, md); return nil })
}

type faultAcc struct {
	authkeeper.AccountKeeper
	f *Fault
}

func (a *faultAcc) HasAccount(ctx context.Context, addr sdk.AccAddress) (has bool) {
	_ = a.f.wrap("auth.HasAccount", false, func() error { has = a.AccountKeeper.HasAccount(ctx, addr); return nil })
	return has
}
func (a *faultAcc) NewAccountWithAddress(ctx context.Context, addr sdk.AccAddress) (acc sdk.AccountI) {
	_ = a.f.wrap("auth.NewAccountWithAddress", false, func() error { acc = a.AccountKeeper.NewAccountWithAddress(ctx, addr); return nil })
	return acc
}
func (a *faultAcc) SetAccount(ctx context.Context, acc sdk.AccountI) {
	_ = a.f.wrap("auth.SetAccount", false, func() error { a.AccountKeeper.SetAccount(ctx, acc); return nil })
}
