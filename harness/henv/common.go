// Package henv builds in-memory L1 (ophost) and L2 (opchild) chains out of the real
// keepers and runs messages the way baseapp does: one message = one transaction on a
// cache-wrapped store, panics recovered, writes and events discarded on failure.
package henv

import (
	"bytes"
	"crypto/sha256"
	"encoding/binary"
	"encoding/hex"
	"fmt"
	"os"
	"reflect"
	"runtime/debug"
	"sort"

	storetypes "cosmossdk.io/store/types"
	"cosmossdk.io/x/tx/signing"

	"github.com/cosmos/cosmos-sdk/baseapp"
	"github.com/cosmos/cosmos-sdk/client"
	"github.com/cosmos/cosmos-sdk/codec"
	codecaddress "github.com/cosmos/cosmos-sdk/codec/address"
	codectypes "github.com/cosmos/cosmos-sdk/codec/types"
	"github.com/cosmos/cosmos-sdk/crypto/keys/ed25519"
	"github.com/cosmos/cosmos-sdk/crypto/keys/secp256k1"
	cryptotypes "github.com/cosmos/cosmos-sdk/crypto/types"
	"github.com/cosmos/cosmos-sdk/std"
	sdk "github.com/cosmos/cosmos-sdk/types"
	"github.com/cosmos/cosmos-sdk/types/module"
	"github.com/cosmos/cosmos-sdk/x/auth/tx"
	"github.com/cosmos/gogoproto/proto"
)

// EncodingConfig mirrors the one used by the repository's own test environments.
type EncodingConfig struct {
	InterfaceRegistry codectypes.InterfaceRegistry
	Marshaler         codec.Codec
	TxConfig          client.TxConfig
	Amino             *codec.LegacyAmino
}

func makeEncodingConfig(basics module.BasicManager) EncodingConfig {
	interfaceRegistry, _ := codectypes.NewInterfaceRegistryWithOptions(codectypes.InterfaceRegistryOptions{
		ProtoFiles: proto.HybridResolver,
		SigningOptions: signing.Options{
			AddressCodec:          codecaddress.NewBech32Codec(sdk.GetConfig().GetBech32AccountAddrPrefix()),
			ValidatorAddressCodec: codecaddress.NewBech32Codec(sdk.GetConfig().GetBech32ValidatorAddrPrefix()),
		},
	})
	appCodec := codec.NewProtoCodec(interfaceRegistry)
	legacyAmino := codec.NewLegacyAmino()
	txConfig := tx.NewTxConfig(appCodec, tx.DefaultSignModes)

	std.RegisterInterfaces(interfaceRegistry)
	std.RegisterLegacyAminoCodec(legacyAmino)
	basics.RegisterLegacyAminoCodec(legacyAmino)
	basics.RegisterInterfaces(interfaceRegistry)

	return EncodingConfig{
		InterfaceRegistry: interfaceRegistry,
		Marshaler:         appCodec,
		TxConfig:          txConfig,
		Amino:             legacyAmino,
	}
}

// User is an account with a fixed (seed-derived) key: no randomness from the process.
type User struct {
	Priv cryptotypes.PrivKey
	Pub  cryptotypes.PubKey
	Addr sdk.AccAddress
	Str  string
}

// MakeUser derives a secp256k1 account from a label.
func MakeUser(label string) User {
	priv := secp256k1.GenPrivKeyFromSecret([]byte("verif-user-" + label))
	addr := sdk.AccAddress(priv.PubKey().Address())
	return User{Priv: priv, Pub: priv.PubKey(), Addr: addr, Str: addr.String()}
}

// MakeConsKey derives an ed25519 consensus key from a label.
func MakeConsKey(label string) *ed25519.PrivKey {
	return ed25519.GenPrivKeyFromSecret([]byte("verif-cons-" + label))
}

// Result of one delivered message.
type Result struct {
	Resp   proto.Message
	Err    error
	Panic  interface{} // non-nil if the handler panicked (Err is set as well)
	Events sdk.Events
	Gas    uint64 // gas consumed on the tx meter, when the ctx had a finite meter
}

func (r Result) OK() bool { return r.Err == nil }

// WireCopy returns msg as a transaction would carry it to the handler: encoded and decoded again
// (nil instead of empty lists, fresh memory, nested Any values unpacked). A message that cannot
// be encoded or decoded is returned as it is.
func WireCopy(cdc codec.Codec, msg sdk.Msg) sdk.Msg {
	if cdc == nil || msg == nil {
		return msg
	}
	pm, ok := msg.(proto.Message)
	if !ok {
		return msg
	}
	bz, err := cdc.Marshal(pm)
	if err != nil {
		return msg
	}
	t := reflect.TypeOf(msg)
	if t.Kind() != reflect.Ptr {
		return msg
	}
	fresh, ok := reflect.New(t.Elem()).Interface().(proto.Message)
	if !ok {
		return msg
	}
	if err := cdc.Unmarshal(bz, fresh); err != nil {
		return msg
	}
	if m, ok := fresh.(sdk.Msg); ok {
		return m
	}
	return msg
}

// deliver runs one message as a transaction against ctx.
func deliver(ctx sdk.Context, router *baseapp.MsgServiceRouter, msg sdk.Msg) (res Result) {
	cacheCtx, write := ctx.CacheContext()
	cacheCtx = cacheCtx.WithEventManager(sdk.NewEventManager())
	before := ctx.GasMeter().GasConsumed()
	defer func() {
		if r := recover(); r != nil {
			if os.Getenv("VERIF_STACK") != "" {
				fmt.Fprintf(os.Stderr, "panic in deliver: %v\n%s\n", r, debug.Stack())
			}
			res = Result{Panic: r, Err: fmt.Errorf("panic: %v", r)}
		}
		res.Gas = ctx.GasMeter().GasConsumed() - before
	}()
	h := router.Handler(msg)
	if h == nil {
		return Result{Err: fmt.Errorf("unroutable message %s", sdk.MsgTypeURL(msg))}
	}
	r, err := h(cacheCtx, msg)
	if err != nil {
		return Result{Err: err}
	}
	write()
	res.Events = r.GetEvents()
	if len(r.MsgResponses) > 0 {
		if m, ok := r.MsgResponses[0].GetCachedValue().(proto.Message); ok {
			res.Resp = m
		}
	}
	return res
}

// EventAttrs returns the attribute map of every event of the given type, in order.
func EventAttrs(evs sdk.Events, typ string) []map[string]string {
	var out []map[string]string
	for _, e := range evs {
		if e.Type != typ {
			continue
		}
		m := map[string]string{}
		for _, a := range e.Attributes {
			m[a.Key] = a.Value
		}
		out = append(out, m)
	}
	return out
}

// RenderEvents gives a canonical, order-preserving rendering of an event list.
func RenderEvents(evs sdk.Events) string {
	var b bytes.Buffer
	for _, e := range evs {
		b.WriteString(e.Type)
		b.WriteByte('{')
		for _, a := range e.Attributes {
			fmt.Fprintf(&b, "%s=%q,", a.Key, a.Value)
		}
		b.WriteString("};")
	}
	return b.String()
}

// KV is one raw store entry.
type KV struct {
	Store string
	Key   []byte
	Value []byte
}

// dumpStores returns every key/value of the named stores in deterministic order.
func dumpStores(ctx sdk.Context, keys map[string]*storetypes.KVStoreKey, skip func(store string, key []byte) bool) []KV {
	names := make([]string, 0, len(keys))
	for n := range keys {
		names = append(names, n)
	}
	sort.Strings(names)
	var out []KV
	for _, n := range names {
		st := ctx.MultiStore().GetKVStore(keys[n])
		it := st.Iterator(nil, nil)
		for ; it.Valid(); it.Next() {
			k := append([]byte{}, it.Key()...)
			if skip != nil && skip(n, k) {
				continue
			}
			out = append(out, KV{Store: n, Key: k, Value: append([]byte{}, it.Value()...)})
		}
		it.Close()
	}
	return out
}

// DigestKVs hashes a dump.
func DigestKVs(kvs []KV) string {
	h := sha256.New()
	var l [8]byte
	for _, kv := range kvs {
		for _, b := range [][]byte{[]byte(kv.Store), kv.Key, kv.Value} {
			binary.BigEndian.PutUint64(l[:], uint64(len(b)))
			h.Write(l[:])
			h.Write(b)
		}
	}
	return hex.EncodeToString(h.Sum(nil))
}

// DiffKVs renders the entries that differ between two dumps (for failure messages).
func DiffKVs(a, b []KV) string {
	idx := func(kvs []KV) map[string]string {
		m := map[string]string{}
		for _, kv := range kvs {
			m[kv.Store+"/"+hex.EncodeToString(kv.Key)] = hex.EncodeToString(kv.Value)
		}
		return m
	}
	ma, mb := idx(a), idx(b)
	keys := map[string]bool{}
	for k := range ma {
		keys[k] = true
	}
	for k := range mb {
		keys[k] = true
	}
	sorted := make([]string, 0, len(keys))
	for k := range keys {
		sorted = append(sorted, k)
	}
	sort.Strings(sorted)
	var buf bytes.Buffer
	n := 0
	for _, k := range sorted {
		if ma[k] != mb[k] {
			fmt.Fprintf(&buf, "  %s: %q -> %q\n", k, trunc(ma[k]), trunc(mb[k]))
			n++
			if n > 20 {
				buf.WriteString("  ...\n")
				break
			}
		}
	}
	return buf.String()
}

func trunc(s string) string {
	if len(s) > 96 {
		return s[:96] + "…"
	}
	return s
}
